------------------------------- MODULE Poly -------------------------------
(***************************************************************************)
(* Multilinear polynomials over a finite label set.                        *)
(*                                                                         *)
(* A polynomial is a function from monomials (finite SETS of labels) to    *)
(* NON-ZERO integers; the zero polynomial is the empty function << >>.     *)
(* Over {0,1} (boolean kinds: QUBO, PUBO, PCBO, ...Matrix) x^2 = x, so the *)
(* product of monomials is set union; over {+1,-1} (spin kinds: QUSO,      *)
(* PUSO, PCSO) z^2 = 1, so it is symmetric difference.  Multilinear        *)
(* polynomials are in bijection with the functions they denote, hence      *)
(* "equal as functions on every assignment" is "equal as TLA+ values".     *)
(*                                                                         *)
(* Rational coefficients never occur in this module: a record that crosses *)
(* the Python/TLC boundary carries integer numerators over ONE common      *)
(* power-of-two denominator (DESIGN 1.1).                                  *)
(*                                                                         *)
(* A boolean assignment is the set `ones` of labels that are 1; a spin     *)
(* assignment is the set `minus` of labels that are -1.  The fixed         *)
(* correspondence  boolean 0 <-> spin +1,  boolean 1 <-> spin -1  makes    *)
(* the two coincide (ones = minus).                                        *)
(***************************************************************************)
EXTENDS Integers, FiniteSets, FiniteSetsExt, Sequences, SequencesExt, Functions, Folds, TLC

Zero == << >>
Coef(p, m) == IF m \in DOMAIN p THEN p[m] ELSE 0
\* keep only the non-zero coefficients of f on ms
Norm(ms, f(_)) == LET s == {m \in ms : f(m) # 0} IN [m \in s |-> f(m)]
SumOver(S, f(_)) == MapThenSumSet(f, S)
Abs(v) == IF v < 0 THEN -v ELSE v
Max2(a, b) == IF a > b THEN a ELSE b
Min2(a, b) == IF a < b THEN a ELSE b
Pow2(k) == 2^k

Mono(m, c) == IF c = 0 THEN Zero ELSE [x \in {m} |-> c]
Const(c) == Mono({}, c)
Var(l) == Mono({l}, 1)
Offset(p) == Coef(p, {})
WoOffset(p) == [m \in DOMAIN p \ {{}} |-> p[m]]

Add(p, q) == Norm(DOMAIN p \cup DOMAIN q, LAMBDA m : Coef(p, m) + Coef(q, m))
Scale(c, p) == Norm(DOMAIN p, LAMBDA m : c * p[m])
Neg(p) == Scale(-1, p)
Sub(p, q) == Add(p, Neg(q))

SDiff(a, b) == (a \ b) \cup (b \ a)
\* product with a monomial-combination rule comb (union or symmetric difference)
MulWith(p, q, comb(_, _)) ==
    LET pp == TLCEval(p)      \* force the operands: the fold below is evaluated natively and must not re-enter them lazily
        qq == TLCEval(q)
        pairs == (DOMAIN pp) \X (DOMAIN qq)
        ms == {comb(ab[1], ab[2]) : ab \in pairs}
        \* accumulate pair by pair (FoldSet is evaluated natively by TLC; a per-monomial filter over all pairs is cubic)
        acc == FoldSet(LAMBDA ab, f : [f EXCEPT ![comb(ab[1], ab[2])] = @ + pp[ab[1]] * qq[ab[2]]], [m \in ms |-> 0], pairs)
    IN Norm(ms, LAMBDA m : acc[m])
MulB(p, q) == MulWith(p, q, LAMBDA a, b : a \cup b)
MulS(p, q) == MulWith(p, q, SDiff)
Mul(spin, p, q) == IF spin THEN MulS(p, q) ELSE MulB(p, q)

RECURSIVE Pow(_, _, _)
Pow(spin, p, k) == IF k = 0 THEN Const(1) ELSE Mul(spin, Pow(spin, p, k - 1), p)

\* ---------- evaluation ----------
EvalB(p, ones) == SumOver({m \in DOMAIN p : m \subseteq ones}, LAMBDA m : p[m])
Sign(m, minus) == IF Cardinality(m \cap minus) % 2 = 0 THEN 1 ELSE -1
EvalS(p, minus) == SumOver(DOMAIN p, LAMBDA m : p[m] * Sign(m, minus))
Eval(spin, p, s) == IF spin THEN EvalS(p, s) ELSE EvalB(p, s)

VarsOf(p) == UNION DOMAIN p
Degree(p) == IF DOMAIN p = {} THEN 0 ELSE Max({Cardinality(m) : m \in DOMAIN p})
MaxAbsCoef(p) == IF DOMAIN p = {} THEN 0 ELSE Max({Abs(p[m]) : m \in DOMAIN p})

\* ---------- raw term lists (what the implementation hands over) ----------
\* A raw term list is a sequence of <<key, coef>> with key a SEQUENCE of labels, possibly with
\* repeated labels and possibly with the same monomial occurring several times.
Count(k, x) == Cardinality({i \in DOMAIN k : k[i] = x})
SquashB(k) == ToSet(k)
SquashS(k) == {x \in ToSet(k) : Count(k, x) % 2 = 1}
Squash(spin, k) == IF spin THEN SquashS(k) ELSE SquashB(k)
FromRawWith(ts, sq(_)) ==
    LET tt == TLCEval(ts)
        keys == TLCEval([i \in DOMAIN tt |-> sq(tt[i][1])])
        ms == {keys[i] : i \in DOMAIN tt}
        \* accumulate term by term (natively evaluated fold; operands forced first, see MulWith)
        acc == FoldSet(LAMBDA i, f : [f EXCEPT ![keys[i]] = @ + tt[i][2]], [m \in ms |-> 0], DOMAIN tt)
    IN Norm(ms, LAMBDA m : acc[m])
FromRawB(ts) == FromRawWith(ts, SquashB)
FromRawS(ts) == FromRawWith(ts, SquashS)
FromRaw(spin, ts) == IF spin THEN FromRawS(ts) ELSE FromRawB(ts)
\* canonical storage (C05): no zero coefficient, no repeated label in a key, no repeated key
RawCanonical(ts) ==
    /\ \A i \in DOMAIN ts : ts[i][2] # 0 /\ Cardinality(ToSet(ts[i][1])) = Len(ts[i][1])
    /\ \A i, j \in DOMAIN ts : i # j => ToSet(ts[i][1]) # ToSet(ts[j][1])

\* ---------- boolean <-> spin ----------
\* x = (1 - z)/2.  ToSpinNum(p, d) = numerators of the spin polynomial over the denominator 2^d,
\* for any d >= Degree(p).
ParitySign(n) == IF n % 2 = 0 THEN 1 ELSE -1
ToSpinNum(p, d) ==
    LET ms == UNION {SUBSET m : m \in DOMAIN p}
    IN Norm(ms, LAMBDA t : SumOver({m \in DOMAIN p : t \subseteq m},
                    LAMBDA m : p[m] * Pow2(d - Cardinality(m)) * ParitySign(Cardinality(t))))
\* z = 1 - 2x, exact over the integers
ToBool(h) ==
    LET ms == UNION {SUBSET m : m \in DOMAIN h}
    IN Norm(ms, LAMBDA t : SumOver({m \in DOMAIN h : t \subseteq m},
                    LAMBDA m : h[m] * ParitySign(Cardinality(t)) * Pow2(Cardinality(t))))
\* Moebius inversion: the unique multilinear polynomial with EvalB(.., t) = f(t) for t \in SUBSET V
FromTruth(V, f(_)) ==
    Norm(SUBSET V, LAMBDA m : SumOver(SUBSET m, LAMBDA t : ParitySign(Cardinality(m) - Cardinality(t)) * f(t)))

\* ---------- relabelling, substitution ----------
\* map : label -> label (a function); must be injective on VarsOf(p) for the result to denote the
\* same function up to renaming
Relabel(p, map) ==
    LET img(m) == {map[x] : x \in m}
        ms == {img(m) : m \in DOMAIN p}
    IN Norm(ms, LAMBDA t : SumOver({m \in DOMAIN p : img(m) = t}, LAMBDA m : p[m]))
\* substitute integer values (vals : label -> Int) for some labels; the remaining labels stay
RECURSIVE ProdVals(_, _)
ProdVals(S, vals) == IF S = {} THEN 1 ELSE LET x == CHOOSE y \in S : TRUE IN vals[x] * ProdVals(S \ {x}, vals)
SubValue(p, vals) ==
    LET rest(m) == m \ DOMAIN vals
        ms == {rest(m) : m \in DOMAIN p}
    IN Norm(ms, LAMBDA t : SumOver({m \in DOMAIN p : rest(m) = t},
                                   LAMBDA m : p[m] * ProdVals(m \cap DOMAIN vals, vals)))
\* subgraph(G, nodes, connections): constant dropped, outside labels fixed to conn (default 0)
SubGraph(p, nodes, conn) ==
    LET outside == VarsOf(p) \ nodes
        vals == [x \in outside |-> IF x \in DOMAIN conn THEN conn[x] ELSE 0]
    IN SubValue(WoOffset(p), vals)       \* only the ORIGINAL constant is dropped; outside terms may leave a new one

\* ---------- extrema ----------
Subsets(V) == SUBSET V
MinB(p) == Min({EvalB(p, s) : s \in SUBSET VarsOf(p)})
MaxB(p) == Max({EvalB(p, s) : s \in SUBSET VarsOf(p)})
MinS(p) == Min({EvalS(p, s) : s \in SUBSET VarsOf(p)})
MaxS(p) == Max({EvalS(p, s) : s \in SUBSET VarsOf(p)})
\* transcription of approximate_pubo_extrema / approximate_puso_extrema
ApproxB(p) == [lo |-> Offset(p) + SumOver({m \in DOMAIN p : m # {} /\ p[m] < 0}, LAMBDA m : p[m]),
               hi |-> Offset(p) + SumOver({m \in DOMAIN p : m # {} /\ p[m] > 0}, LAMBDA m : p[m])]
ApproxS(p) == LET a == SumOver(DOMAIN p \ {{}}, LAMBDA m : Abs(p[m]))
              IN [lo |-> Offset(p) - a, hi |-> Offset(p) + a]
=============================================================================
