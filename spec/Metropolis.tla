----------------------------- MODULE Metropolis -----------------------------
(***************************************************************************)
(* Single-spin Metropolis dynamics as implemented by the two C kernels     *)
(* (qubovert/sim/src/anneal_quso.c, anneal_puso.c).                        *)
(*                                                                         *)
(* State: `minus` (set of spins that are -1), `cache` (the QUSO kernel's   *)
(* flip_spin_dE array, maintained INCREMENTALLY by recompute_flip_dE),     *)
(* the model (chosen in the first step, then constant).                    *)
(* One visit of spin i at a temperature that is zero (Tpos = FALSE) or     *)
(* positive: the flip is accepted iff dE <= 0, or Tpos and the variate is  *)
(* below exp(-dE/T) (abstracted to a nondeterministic boolean `below`).    *)
(*                                                                         *)
(* Checked by TLC for every model over N spins with fields/couplings in    *)
(* Coefs and every visiting order:                                         *)
(*   CacheExact        the incrementally maintained cache always equals    *)
(*                     the exact energy change of the model                *)
(*   SubgraphExact     the PUSO kernel's  -2 * (sum of the terms that      *)
(*                     contain i)  equals the exact energy change          *)
(*   ZeroTempMonotone  at temperature zero no step increases the energy    *)
(* CacheFactor = 4 is the code; 2 is a negative configuration.             *)
(***************************************************************************)
EXTENDS Poly
CONSTANTS N, Coefs, MaxDeg, CacheFactor
VARIABLES ph, model, minus, cache, lastT
vars == <<ph, model, minus, cache, lastT>>
Spins == 0..(N - 1)
Monos == {m \in SUBSET Spins : m # {} /\ Cardinality(m) <= MaxDeg}
S(mi, i) == IF i \in mi THEN -1 ELSE 1
Flip(mi, i) == IF i \in mi THEN mi \ {i} ELSE mi \cup {i}
Energy(p, mi) == EvalS(p, mi)
DeltaE(p, mi, i) == Energy(p, Flip(mi, i)) - Energy(p, mi)
\* QUSO kernel, compute_flip_dE: -2 * s_i * (h_i + sum_j J_ij s_j)
Jc(p, i, n) == Coef(p, {i, n})
InitCache(p, mi) == [i \in Spins |-> -2 * S(mi, i) * (Coef(p, {i}) + SumOver(Spins \ {i}, LAMBDA n : Jc(p, i, n) * S(mi, n)))]
\* recompute_flip_dE(spin): own entry negated, each neighbour adjusted by Factor * s_spin * s_n * J (BEFORE the flip)
Recompute(p, mi, ca, sp) == [n \in Spins |-> IF n = sp THEN -ca[n]
                                              ELSE ca[n] + CacheFactor * S(mi, sp) * S(mi, n) * Jc(p, sp, n)]
\* PUSO kernel: dE = -2 * puso_subgraph_value(spin)
SubgraphDE(p, mi, i) == -2 * SumOver({m \in DOMAIN p : i \in m}, LAMBDA m : p[m] * Sign(m, mi))

Init == ph = 0 /\ model = Zero /\ minus = {} /\ cache = [i \in Spins |-> 0] /\ lastT = FALSE
ChooseSupport == ph = 0 /\ ph' = 1 /\ \E sup \in SUBSET Monos : model' = [m \in sup |-> 1] /\ UNCHANGED <<minus, cache, lastT>>
ChooseModel == /\ ph = 1 /\ ph' = 2
               /\ \E f \in [DOMAIN model -> Coefs \ {0}] : \E mi \in SUBSET Spins :
                     model' = f /\ minus' = mi /\ cache' = InitCache(f, mi)
               /\ UNCHANGED lastT
Visit(i, tpos, below) ==
    /\ ph = 2
    /\ LET dE == cache[i]
           accept == dE <= 0 \/ (tpos /\ below)
       IN IF accept THEN minus' = Flip(minus, i) /\ cache' = Recompute(model, minus, cache, i)
          ELSE UNCHANGED <<minus, cache>>
    /\ lastT' = tpos /\ UNCHANGED <<ph, model>>
Next == ChooseSupport \/ ChooseModel \/ \E i \in Spins, tpos, below \in BOOLEAN : Visit(i, tpos, below)
Spec == Init /\ [][Next]_vars
Quadratic == \A m \in DOMAIN model : Cardinality(m) <= 2
CacheExact == (ph = 2 /\ Quadratic) => \A i \in Spins : cache[i] = DeltaE(model, minus, i)
SubgraphExact == ph = 2 => \A i \in Spins : SubgraphDE(model, minus, i) = DeltaE(model, minus, i)
ZeroTempMonotone == [][(ph = 2 /\ ~lastT' /\ Quadratic) => Energy(model, minus') <= Energy(model, minus)]_vars
=============================================================================
