------------------------------ MODULE Problems ------------------------------
(***************************************************************************)
(* C10: the problem classes of qubovert.problems encode their              *)
(* combinatorial problem faithfully.  For each class this module defines,  *)
(* from the problem statement in the class docstring and INDEPENDENTLY of  *)
(* the encoder: how an assignment of the first problem variables decodes   *)
(* (Decode), when a decoded solution is feasible (Feasible), its cost      *)
(* (Cost) and the optimum (Opt).  TLC then judges what the REAL classes    *)
(* produced for an instance: the table of convert_solution /               *)
(* is_solution_valid over all assignments of the problem variables, and    *)
(* the terms of to_qubo() / to_quso() - evaluated here on EVERY assignment *)
(* of all formulation variables (problem variables and ancillas):          *)
(*    E(s) >= B * Opt                         (no state below the optimum) *)
(*    strict weights: E(s) = B * Opt => Decode(s) feasible and optimal     *)
(*    some s attains B * Opt and decodes to a feasible optimal solution    *)
(* Ground states are found by this enumeration, never by the repository's  *)
(* solver.  States: (instance) and (instance, assignment).                 *)
(***************************************************************************)
EXTENDS Poly, Json, IOUtils
Recs == ndJsonDeserialize(IOEnv.QV_RECS)
NR == Len(Recs)
VARIABLES c, ph, s, optv, k   \* optv: <<instance feasible?, B * optimal cost>> of record c; k: its form, canonicalised once
vars == <<c, ph, s, optv, k>>
R == Recs[c]
I == R.inst
E(a) == Eval(R.spinform, k, a)
Clause(name, cond) == cond \/ (PrintT(<<"QVVIOL", name, c, R.id>>) /\ FALSE)
Case == ph = 3
Point == ph = 4
Good == R.raised = ""
SumSeq(q) == SumOver(1..Len(q), LAMBDA i : q[i])

\* ---------------- problem-level semantics ----------------
\* a problem-level candidate is a subset `on` of 0..np-1 (np = number of PROBLEM variables): the variables that are "1"
NP == R.np
Cands == SUBSET (0..(NP - 1))
\* SetCover: choose sets; feasible iff their union is U; cost = sum of the weights
SC_Feasible(on) == UNION {ToSet(I.V[i + 1]) : i \in on} = ToSet(I.U)
SC_Cost(on) == SumOver(on, LAMBDA i : I.weights[i + 1])
\* VertexCover: on = coloured vertices (by index); every edge has a coloured end; cost = number of coloured vertices
VC_Feasible(on) == \A e \in 1..Len(I.edges) : I.edges[e][1] \in on \/ I.edges[e][2] \in on
VC_Cost(on) == Cardinality(on) * R.unit
\* BILP: x_i = 1 iff i in on; S x = b; cost c . x
BILP_Feasible(on) == \A j \in 1..Len(I.S) : SumOver(on, LAMBDA i : I.S[j][i + 1]) = I.b[j]
BILP_Cost(on) == SumOver(on, LAMBDA i : I.c[i + 1]) * R.unit
\* JobSequencing: variable job*m + worker; every job on exactly one worker; cost = longest worker
JS_m == I.m
JS_Jobs == 0..(Len(I.lengths) - 1)
JS_Of(on, w) == {j \in JS_Jobs : (j * JS_m + w) \in on}
JS_Feasible(on) == \A j \in JS_Jobs : Cardinality({w \in 0..(JS_m - 1) : (j * JS_m + w) \in on}) = 1
JS_Len(on, w) == SumOver(JS_Of(on, w), LAMBDA j : I.lengths[j + 1])
JS_Cost(on) == Max({JS_Len(on, w) : w \in 0..(JS_m - 1)}) * R.unit
\* GraphPartitioning: on = one side (by vertex index); balanced; cost = weight of the cut
GP_Feasible(on) == 2 * Cardinality(on) = NP
GP_Cost(on) == Cardinality({e \in 1..Len(I.edges) : (I.edges[e][1] \in on) # (I.edges[e][2] \in on)}) * R.unit
\* NumberPartitioning: equal sums; cost 0
NPart_Feasible(on) == 2 * SumOver(on, LAMBDA i : I.S[i + 1]) = SumSeq(I.S)
\* AlternatingSectorsChain: all spins equal; cost = the energy of that state
ASC_Feasible(on) == on = {} \/ on = 0..(NP - 1)
Feasible(on) == CASE R.cls = "SetCover" -> SC_Feasible(on) [] R.cls = "VertexCover" -> VC_Feasible(on)
                  [] R.cls = "BILP" -> BILP_Feasible(on) [] R.cls = "JobSequencing" -> JS_Feasible(on)
                  [] R.cls = "GraphPartitioning" -> GP_Feasible(on) [] R.cls = "NumberPartitioning" -> NPart_Feasible(on)
                  [] R.cls = "AlternatingSectorsChain" -> ASC_Feasible(on)
Cost(on) == CASE R.cls = "SetCover" -> SC_Cost(on) [] R.cls = "VertexCover" -> VC_Cost(on)
              [] R.cls = "BILP" -> BILP_Cost(on) [] R.cls = "JobSequencing" -> JS_Cost(on)
              [] R.cls = "GraphPartitioning" -> GP_Cost(on) [] R.cls = "NumberPartitioning" -> 0
              [] R.cls = "AlternatingSectorsChain" -> 0
FeasibleSet == {on \in Cands : Feasible(on)}
Opt == Min({Cost(on) : on \in FeasibleSet})
\* the problem-level candidate an assignment of ALL formulation variables denotes (ancillas are ignored)
Prob(a) == a \cap (0..(NP - 1))
\* JobSequencing: a ground state is only meaningful if worker 0 is the longest (the encoding's own convention);
\* the decoded cost is the length of the longest worker in every case
\* R.B is the integer B over the record's denominator, costs are integers * unit; for the chain the optimal cost is the
\* energy of the ferromagnetic state itself
BOptNow == IF R.cls = "AlternatingSectorsChain" THEN E({}) ELSE R.B * Opt
InstanceFeasible == optv[1]
BOpt == optv[2]
Init == c = 0 /\ ph = 0 /\ s = {} /\ optv = <<FALSE, 0>> /\ k = Zero
Next == \/ ph = 0 /\ ph' = 1 /\ c' \in 1..16 /\ UNCHANGED <<s, optv, k>>
        \/ ph = 1 /\ ph' = 2 /\ UNCHANGED <<s, optv>>
              /\ \E i \in {j \in 1..NR : j % 16 = c % 16} : c' = i /\ k' = FromRaw(Recs[i].spinform, Recs[i].terms)
        \* one more step computes the optimum of the chosen record (so that it is evaluated once, not per assignment)
        \/ ph = 2 /\ ph' = 3 /\ c' = c /\ s' = s /\ k' = k
              /\ optv' = IF R.raised = "" /\ FeasibleSet # {} THEN <<TRUE, BOptNow>> ELSE <<FALSE, 0>>
        \* the assignment is chosen in two halves so that the workers share the assignments of one large instance
        \/ ph = 3 /\ ph' = 35 /\ c' = c /\ optv' = optv /\ k' = k /\ s' \in SUBSET (0..((R.n \div 2) - 1))
        \/ ph = 35 /\ ph' = 4 /\ c' = c /\ optv' = optv /\ k' = k /\ \E hi \in SUBSET ((R.n \div 2)..(R.n - 1)) : s' = s \cup hi
Spec == Init /\ [][Next]_vars

\* ---------------- clauses on the implementation's tables (problem variables only) ----------------
TabRow(on) == R.tab[CHOOSE q \in 1..Len(R.tab) : ToSet(R.tab[q][1]) = on]
NoRaise == Clause("NoRaise", ~Case \/ Good)
ArgUnchanged == Clause("ArgUnchanged", ~Case \/ R.unchanged)
\* is_solution_valid accepts exactly the feasible solutions (boolean and spin input, ancillas irrelevant)
ValidIffFeasible == Clause("ValidIffFeasible", ~(Case /\ Good) \/ \A on \in Cands : TabRow(on)[3] = Feasible(on))
\* convert_solution decodes the first np labels, boolean or spin, whatever the ancillas hold
DecodeOK == Clause("DecodeOK", ~(Case /\ Good) \/ \A on \in Cands : ToSet(TabRow(on)[2]) = on /\ TabRow(on)[4])
NumVars == Clause("NumVars", ~(Case /\ Good) \/ (VarsOf(k) \subseteq 0..(R.n - 1) /\ NP <= R.n))
\* problem-specific solve_bruteforce returns an optimal feasible solution
BruteForceOK == Clause("BruteForceOK", ~(Case /\ Good /\ R.has_bf /\ InstanceFeasible) \/
                       (Feasible(ToSet(R.bf)) /\ R.B * Cost(ToSet(R.bf)) = BOpt))
\* with all_solutions: exactly the optimal feasible solutions
BruteForceAllOK == Clause("BruteForceAllOK", ~(Case /\ Good /\ R.has_bf_all /\ InstanceFeasible) \/
                       {ToSet(R.bf_all[q]) : q \in 1..Len(R.bf_all)} = {on \in FeasibleSet : R.B * Cost(on) = BOpt})
\* some assignment attains B * Opt and decodes to a feasible optimal solution
GroundAttained == Clause("GroundAttained", ~(Case /\ Good /\ InstanceFeasible /\ R.judge_ground) \/
                       \E a \in SUBSET (0..(R.n - 1)) : E(a) = BOpt /\ Feasible(Prob(a)) /\ (R.cls = "AlternatingSectorsChain" \/ R.B * Cost(Prob(a)) = BOpt))

\* ---------------- clauses per assignment of all formulation variables ----------------
\* no state of the formulation lies below B * Opt  (so the ground energy is exactly B * Opt)
NothingBelowOptimum == Clause("NothingBelowOptimum", ~(Point /\ Good /\ InstanceFeasible /\ R.judge_ground) \/ E(s) >= BOpt)
\* weights strictly above the documented threshold: every ground state decodes to a feasible optimal solution
GroundStatesDecode == Clause("GroundStatesDecode", ~(Point /\ Good /\ InstanceFeasible /\ R.strict) \/
                       (E(s) = BOpt => (Feasible(Prob(s)) /\ (R.cls = "AlternatingSectorsChain" \/ R.B * Cost(Prob(s)) = BOpt))))
=============================================================================
