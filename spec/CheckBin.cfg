SPECIFICATION Spec
INVARIANT Value
INVARIANT MustRaise
INVARIANT MayNotRaise
INVARIANT OnlyKeyError
INVARIANT Class
INVARIANT Canonical
INVARIANT Unchanged
INVARIANT Commutes
INVARIANT Bookkeeping
CHECK_DEADLOCK FALSE
