SPECIFICATION Spec
INVARIANT Value
INVARIANT MustRaise
INVARIANT MayNotRaise
INVARIANT OnlyKeyError
INVARIANT Class
INVARIANT Canonical
INVARIANT Unchanged
INVARIANT Commutes
CHECK_DEADLOCK FALSE
