-------------------------- MODULE MetropolisTrace --------------------------
(***************************************************************************)
(* Validates step traces recorded from the C annealing kernels (hook H2)   *)
(* against the Metropolis dynamics of Metropolis.tla, for both kernels.    *)
(*                                                                         *)
(* A record is one call of anneal_quso / anneal_puso:                      *)
(*   kernel, N, den          kernel used, number of spins, common          *)
(*                           denominator of all numbers below              *)
(*   h, nn, nb, J | nc, tm, cp   the MARSHALLED arguments of the C call    *)
(*   user, offset            the model the caller passed (raw terms)       *)
(*   pi                      witness: index -> label (verified here)       *)
(*   matrix                  the model was an integer-labelled Matrix      *)
(*   inorder, tpos, init, api, api2, ev2_equal, ev                         *)
(* Events: A (anneal k starts in state st), S (visit: sweep t, position j, *)
(* spin i, logged dE, T>0?, variate below exp(-dE/T)?, flipped?), E (anneal*)
(* k ends with value val in state st).                                     *)
(*                                                                         *)
(* Each event must be explained by the specification; `bad` names the      *)
(* first clause that fails (one INVARIANT per clause name).                *)
(***************************************************************************)
EXTENDS Poly, Json, IOUtils
Traces == ndJsonDeserialize(IOEnv.QV_TRACES)
VARIABLES tid, l, minus, t, j, k, bad, pk    \* pk: <<kernel polynomial, user polynomial>> of the trace, computed once in Init
vars == <<tid, l, minus, t, j, k, bad, pk>>
Tr == Traces[tid]
N == Tr.N
Spins == 0..(N - 1)

\* ---- the kernel's model, rebuilt from the marshalled arrays ----
RECURSIVE PrefixSum(_, _)
PrefixSum(s, n) == IF n = 0 THEN 0 ELSE PrefixSum(s, n - 1) + s[n]
\* QUSO: row i of the flattened neighbour / coupling arrays
Row(r, i) == LET st == PrefixSum(r.nn, i) IN [q \in 1..r.nn[i + 1] |-> <<r.nb[st + q], r.J[st + q]>>]
CouplingsOf(r, i, n) == LET row == Row(r, i) IN {q \in 1..Len(row) : row[q][1] = n}
QusoSym(r) == \A i \in 0..(r.N - 1) : \A n \in 0..(r.N - 1) :
                 LET a == Row(r, i) b == Row(r, n) IN
                 SumOver(CouplingsOf(r, i, n), LAMBDA q : a[q][2]) = SumOver(CouplingsOf(r, n, i), LAMBDA q : b[q][2])
QusoPoly(r) == LET pairs == {<<i, n>> \in (0..(r.N-1)) \X (0..(r.N-1)) : i < n}
                   lin == Norm({{i} : i \in 0..(r.N-1)}, LAMBDA m : r.h[(CHOOSE x \in m : TRUE) + 1])
                   quad == Norm({{p[1], p[2]} : p \in pairs},
                                LAMBDA m : LET i == Min(m) n == Max(m) a == Row(r, i) IN SumOver(CouplingsOf(r, i, n), LAMBDA q : a[q][2]))
               IN Add(lin, quad)
PusoKeys(r) == [q \in 1..Len(r.nc) |-> SubSeq(r.tm, PrefixSum(r.nc, q - 1) + 1, PrefixSum(r.nc, q))]
PusoPoly(r) == FromRawS([q \in 1..Len(r.nc) |-> <<PusoKeys(r)[q], r.cp[q]>>])
KernelPolyOf(r) == IF r.kernel = "quso" THEN QusoPoly(r) ELSE PusoPoly(r)
Model == pk[1]
UserP == pk[2]
\* marshalling clauses (evaluated once per record, at the first event)
PiFun(r) == [i \in 0..(r.N - 1) |-> r.pi[i + 1]]
MarshalOKr(i) == LET r == Traces[i] IN
                 /\ Len(r.pi) = r.N /\ Cardinality(ToSet(r.pi)) = r.N
                 /\ (r.kernel = "quso" => QusoSym(r))
                 \* kernel_only records (the repository's own tests, run with the hook on) carry no caller-side model
                 /\ (r.kernel_only \/ Relabel(Model, PiFun(r)) = WoOffset(UserP))
                 /\ (r.matrix => \A x \in 0..(r.N - 1) : r.pi[x + 1] = x)

Flip(mi, i) == IF i \in mi THEN mi \ {i} ELSE mi \cup {i}
DeltaE(mi, i) == EvalS(Model, Flip(mi, i)) - EvalS(Model, mi)
MinusOf(st) == {i \in 0..(Len(st) - 1) : st[i + 1] = -1}
SpinsOK(st) == Len(st) = N /\ \A i \in 1..Len(st) : st[i] \in {1, -1}

Ev == Tr.ev[l]
Api(r, a) == r.api[a + 1]
ApiVal(st, lab) == LET q == CHOOSE q \in 1..Len(st) : st[q][1] = lab IN st[q][2]
\* first failing clause of an event, "" if the event is explained
CheckA == IF Ev.k # k THEN "AnnealOrder"
          ELSE IF ~SpinsOK(Ev.st) THEN "InitialSpins"
          ELSE IF Len(Tr.init) > 0 /\ Ev.st # Tr.init THEN "InitialStateUsed"
          ELSE IF k = 0 /\ ~MarshalOKr(tid) THEN "MarshalOK"
          \* an explicit schedule is the schedule the kernel runs: as many sweeps, hot or frozen as given
          ELSE IF k = 0 /\ Tr.has_sched /\ Tr.sched_user # Tr.tpos THEN "ScheduleUsed"
          ELSE ""
CheckS == LET i == Ev.i
              must == Ev.dE < 0 \/ (Ev.dE > 0 /\ Ev.tpos /\ Ev.below) \/ (Ev.dE = 0 /\ Ev.tpos)
              mustnot == Ev.dE > 0 /\ ~(Ev.tpos /\ Ev.below)
          IN IF Ev.t # t \/ Ev.j # j THEN "Position"
             ELSE IF t >= Len(Tr.tpos) THEN "SweepCount"
             ELSE IF Ev.tpos # Tr.tpos[t + 1] \/ ~Ev.t_ok THEN "Temperature"
             ELSE IF i \notin Spins THEN "IndexRange"
             ELSE IF Tr.inorder /\ i # j THEN "InOrder"
             ELSE IF Ev.dE # DeltaE(minus, i) THEN "DeltaExact"
             ELSE IF must /\ ~Ev.acc THEN "MustAccept"
             ELSE IF mustnot /\ Ev.acc THEN "MustReject"
             ELSE ""
CheckE == IF Ev.k # k THEN "AnnealOrder"
          ELSE IF t # Len(Tr.tpos) \/ j # 0 THEN "SweepCount"
          ELSE IF ~SpinsOK(Ev.st) \/ MinusOf(Ev.st) # minus THEN "FinalState"
          ELSE IF Ev.val # EvalS(Model, minus) THEN "KernelValue"
          ELSE IF k >= Len(Tr.api) THEN "ResultCount"
          ELSE IF \E x \in Spins : ApiVal(Api(Tr, k).st, Tr.pi[x + 1]) # Ev.st[x + 1] THEN "ApiState"
          ELSE IF Api(Tr, k).val # Ev.val + Offset(UserP) THEN "ApiValue"
          ELSE ""
Init == /\ tid \in 1..Len(Traces) /\ l = 1 /\ minus = {} /\ t = 0 /\ j = 0 /\ k = 0 /\ bad = ""
        /\ pk = <<KernelPolyOf(Traces[tid]), FromRawS(Traces[tid].user)>>
Next == /\ l <= Len(Tr.ev) /\ bad = ""
        /\ l' = l + 1 /\ tid' = tid /\ pk' = pk
        /\ CASE Ev.e = "A" -> /\ bad' = CheckA /\ minus' = MinusOf(Ev.st) /\ t' = 0 /\ j' = 0 /\ k' = k
             [] Ev.e = "S" -> /\ bad' = CheckS
                              /\ minus' = IF Ev.acc THEN Flip(minus, Ev.i) ELSE minus
                              /\ IF j = N - 1 THEN t' = t + 1 /\ j' = 0 ELSE t' = t /\ j' = j + 1
                              /\ k' = k
             [] Ev.e = "E" -> /\ bad' = CheckE /\ k' = k + 1 /\ UNCHANGED <<minus, t, j>>
             [] OTHER -> bad' = "UnknownEvent" /\ UNCHANGED <<minus, t, j, k>>
Spec == Init /\ [][Next]_vars

Report == bad = "" \/ (PrintT(<<"QVVIOL", bad, tid, l - 1>>) /\ FALSE)
\* one invariant per clause so that TLC names what failed
MarshalOK == bad \notin {"MarshalOK", "ScheduleUsed"}
InitialStateUsed == bad \notin {"InitialStateUsed", "InitialSpins"}
VisitOrder == bad \notin {"Position", "IndexRange", "InOrder", "SweepCount", "Temperature", "AnnealOrder"}
DeltaExact == bad # "DeltaExact"
AcceptRule == bad \notin {"MustAccept", "MustReject"}
FinalState == bad \notin {"FinalState", "KernelValue", "ResultCount", "UnknownEvent"}
ApiMatchesKernel == bad \notin {"ApiState", "ApiValue"}
\* whole-call clauses, checked when the trace has been consumed
Done == l = Len(Tr.ev) + 1 /\ bad = ""
AllAnnealsTraced == Done => (Tr.complete => k = Len(Tr.api))
Reproducible == Done => (Tr.api2 = Tr.api /\ Tr.ev2_equal)
\* at temperature zero throughout, every result is at most the value of the supplied initial state
AllZero == \A q \in 1..Len(Tr.tpos) : ~Tr.tpos[q]
ZeroTempNeverWorse == (Done /\ AllZero /\ Len(Tr.init) > 0) =>
                         \A a \in 1..Len(Tr.api) : Tr.api[a].val <= EvalS(Model, MinusOf(Tr.init)) + Offset(UserP)
NoRaise == Tr.raised = "" \/ (PrintT(<<"QVVIOL", "NoRaise", tid, 0>>) /\ FALSE)
Representable == Tr.badnum = "" \/ (PrintT(<<"QVVIOL", "Representable", tid, 0>>) /\ FALSE)
\* with an empty schedule every result is the caller's initial state
ZeroSweeps == Tr.zero_sweep_same
WholeCall == (AllAnnealsTraced /\ Reproducible /\ ZeroTempNeverWorse /\ ZeroSweeps) \/ (PrintT(<<"QVVIOL", "WholeCall", tid, l - 1>>) /\ FALSE)
=============================================================================
