----------------------------- MODULE PolyLaws -----------------------------
(***************************************************************************)
(* Self-check of Poly.tla against the pointwise meaning of polynomials.    *)
(* This is what makes Poly a trustworthy oracle for every Check*.tla.      *)
(* ph = 0: nothing chosen; 1: support of p chosen; 2: p chosen;            *)
(* 3: support of q chosen; 4: p and q chosen.  The choice is split so that *)
(* TLC's workers share the successors (successors of ONE state are         *)
(* expanded by one worker).                                                *)
(***************************************************************************)
EXTENDS Poly
CONSTANTS Labels, CoefSet, PairMode
VARIABLES ph, p, q, sup
vars == <<ph, p, q, sup>>
Monos == SUBSET Labels
Polys == UNION {[S -> CoefSet] : S \in SUBSET Monos}
Init == ph = 0 /\ p = Zero /\ q = Zero /\ sup = {}
Next == \/ ph = 0 /\ ph' = 1 /\ sup' \in SUBSET Monos /\ UNCHANGED <<p, q>>
        \/ ph = 1 /\ ph' = 2 /\ p' \in [sup -> CoefSet] /\ UNCHANGED <<q, sup>>
        \/ PairMode /\ ph = 2 /\ ph' = 3 /\ sup' \in SUBSET Monos /\ UNCHANGED <<p, q>>
        \/ PairMode /\ ph = 3 /\ ph' = 4 /\ q' \in [sup -> CoefSet] /\ UNCHANGED <<p, sup>>
Spec == Init /\ [][Next]_vars
CoefSingle == {-2, 1}
CoefPair == {-2, -1, 1, 2}
Asg == SUBSET Labels
\* ----- single polynomial laws -----
D == Degree(p)
EvalScaleNeg == ph # 2 \/ \A s \in Asg : EvalB(Neg(p), s) = -EvalB(p, s) /\ EvalS(Scale(3, p), s) = 3 * EvalS(p, s)
ToSpinLaw == ph # 2 \/ \A s \in Asg : EvalS(ToSpinNum(p, D), s) = Pow2(D) * EvalB(p, s)
ToSpinLaw2 == ph # 2 \/ \A s \in Asg : EvalS(ToSpinNum(p, D + 1), s) = Pow2(D + 1) * EvalB(p, s)
ToBoolLaw == ph # 2 \/ \A s \in Asg : EvalB(ToBool(p), s) = EvalS(p, s)
RoundTrip == ph # 2 \/ ToBool(ToSpinNum(p, D)) = Scale(Pow2(D), p)
MoebiusB == ph # 2 \/ FromTruth(Labels, LAMBDA t : EvalB(p, t)) = p
\* uniqueness of the multilinear representation: a polynomial vanishing everywhere is Zero
UniqueB == ph # 2 \/ (\A s \in Asg : EvalB(p, s) = 0) => p = Zero
UniqueS == ph # 2 \/ (\A s \in Asg : EvalS(p, s) = 0) => p = Zero
ExtremaB == ph # 2 \/ LET a == ApproxB(p) IN a.lo <= MinB(p) /\ a.hi >= MaxB(p) /\ (VarsOf(p) = {} => a.lo = Offset(p) /\ a.hi = Offset(p))
ExtremaS == ph # 2 \/ LET a == ApproxS(p) IN a.lo <= MinS(p) /\ a.hi >= MaxS(p) /\ (VarsOf(p) = {} => a.lo = Offset(p) /\ a.hi = Offset(p))
PowLaw == ph # 2 \/ \A s \in Asg : /\ EvalB(Pow(FALSE, p, 3), s) = EvalB(p, s) * EvalB(p, s) * EvalB(p, s)
                         /\ EvalS(Pow(TRUE, p, 2), s) = EvalS(p, s) * EvalS(p, s)
SubValueLaw == ph # 2 \/ \A W \in SUBSET Labels : \A w1 \in SUBSET W :
                 LET vb == [x \in W |-> IF x \in w1 THEN 1 ELSE 0]
                     vs == [x \in W |-> IF x \in w1 THEN -1 ELSE 1]
                 IN \A s \in SUBSET (Labels \ W) :
                      /\ EvalB(SubValue(p, vb), s) = EvalB(p, s \cup w1)
                      /\ EvalS(SubValue(p, vs), s) = EvalS(p, s \cup w1)
SubGraphLaw == ph # 2 \/ \A W \in SUBSET Labels : \A s \in SUBSET W :
                 EvalB(SubGraph(p, W, << >>), s) = EvalB(p, s) - Offset(p)
RawLaw == ph # 2 \/ LET ts == SetToSeq({<<SetToSeq(m) \o SetToSeq(m), p[m]>> : m \in DOMAIN p})
          IN FromRawB(ts) = p /\ (FromRawS(ts) = Mono({}, SumOver(DOMAIN p, LAMBDA m : p[m])))
\* nested use through operators that re-use parameter names (guards against evaluation-context mistakes)
WrapSq(P) == MulB(P, P)
WrapSq2(P, c) == WrapSq(Add(P, Const(c)))
NestedLaw == ph # 2 \/ \A s \in Asg : EvalB(WrapSq2(p, 3), s) = (EvalB(p, s) + 3) * (EvalB(p, s) + 3)
\* ----- pair laws -----
AddLaw == ph = 4 => \A s \in Asg : EvalB(Add(p, q), s) = EvalB(p, s) + EvalB(q, s) /\ EvalS(Sub(p, q), s) = EvalS(p, s) - EvalS(q, s)
MulBLaw == ph = 4 => \A s \in Asg : EvalB(MulB(p, q), s) = EvalB(p, s) * EvalB(q, s)
MulSLaw == ph = 4 => \A s \in Asg : EvalS(MulS(p, q), s) = EvalS(p, s) * EvalS(q, s)
Commute == ph = 4 => MulB(p, q) = MulB(q, p) /\ MulS(p, q) = MulS(q, p) /\ Add(p, q) = Add(q, p)
=============================================================================
