----------------------------- MODULE CheckHelpers -----------------------------
(***************************************************************************)
(* Extension of the specification beyond the nineteen listed properties    *)
(* (DESIGN 7): the small helper layer of qubovert.utils / qubovert.sim,    *)
(* specified here and checked on records of real calls (./check EXT).      *)
(*   b2s / s2b        boolean_to_spin, spin_to_boolean on scalars, dicts,  *)
(*                    lists, tuples: b |-> 1 - 2b and back                 *)
(*   d2b / b2d        decimal_to_boolean(d, n) = binary digits, most       *)
(*                    significant first, padded to n; boolean_to_decimal   *)
(*                    its inverse; the spin variants via the fixed         *)
(*                    correspondence                                       *)
(*   numbits          num_bits(v, log_trick) = bit length / v              *)
(*   isspin           is_solution_spin(solution, default)                  *)
(*   intvar           integer_var(prefix, n, log_trick) = sum 2^i x_i / sum x_i *)
(*   props            offset, num_terms, max_index of a model              *)
(*   schedule         _create_spin_schedule: length, endpoints, monotone   *)
(*   arorder          AnnealResult ordering by value                       *)
(***************************************************************************)
EXTENDS Poly, Json, IOUtils
Recs == ndJsonDeserialize(IOEnv.QV_RECS)
VARIABLES c
Init == c = 0
Next == c = 0 /\ c' \in 1..Len(Recs)
Spec == Init /\ [][Next]_c
R == Recs[c]
On(o) == c # 0 /\ R.op = o /\ R.raised = ""
Clause(name, cond) == cond \/ (PrintT(<<"QVVIOL", name, c, R.id>>) /\ FALSE)
NoRaise == Clause("NoRaise", c = 0 \/ R.raised = "" \/ R.raise_expected)
ExpectedRaise == Clause("ExpectedRaise", c = 0 \/ ~R.raise_expected \/ R.raised # "")
\* ---- boolean <-> spin on containers ----
B2S(b) == 1 - 2 * b
S2B(z) == (1 - z) \div 2
BoolToSpin == Clause("BoolToSpin", ~On("b2s") \/ (Len(R.out) = Len(R.inp) /\ \A i \in 1..Len(R.inp) : R.out[i] = B2S(R.inp[i]) /\ R.same_container))
SpinToBool == Clause("SpinToBool", ~On("s2b") \/ (Len(R.out) = Len(R.inp) /\ \A i \in 1..Len(R.inp) : R.out[i] = S2B(R.inp[i]) /\ R.same_container))
\* ---- decimal <-> boolean ----
RECURSIVE Digits(_, _)
Digits(d, n) == IF n = 0 THEN << >> ELSE Append(Digits(d \div 2, n - 1), d % 2)          \* n binary digits of d, MSB first
RECURSIVE ValueOf(_)
ValueOf(bits) == IF Len(bits) = 0 THEN 0 ELSE 2 * ValueOf(SubSeq(bits, 1, Len(bits) - 1)) + bits[Len(bits)]
BitLen(v) == CHOOSE k \in 0..31 : Pow2(k) > v /\ (k = 0 \/ Pow2(k - 1) <= v)
DecToBool == Clause("DecToBool", ~On("d2b") \/ LET n == IF R.nbits < 0 THEN Max2(BitLen(R.d), 1) ELSE R.nbits IN   \* bin(0) has one digit
                 (R.out = (IF R.spin THEN [i \in 1..n |-> B2S(Digits(R.d, n)[i])] ELSE Digits(R.d, n))))
BoolToDec == Clause("BoolToDec", ~On("b2d") \/ R.d = ValueOf(IF R.spin THEN [i \in 1..Len(R.inp) |-> S2B(R.inp[i])] ELSE R.inp))
NumBits == Clause("NumBits", ~On("numbits") \/ R.out[1] = (IF R.log_trick THEN BitLen(R.d) ELSE R.d))
\* is_solution_spin: False as soon as a 0 is seen, True as soon as a -1 is seen (in order), else the default
RECURSIVE IsSpinSeq(_, _, _)
IsSpinSeq(s, i, dflt) == IF i > Len(s) THEN dflt ELSE IF s[i] = 0 THEN FALSE ELSE IF s[i] = -1 THEN TRUE ELSE IsSpinSeq(s, i + 1, dflt)
IsSpin == Clause("IsSpin", ~On("isspin") \/ R.flag = IsSpinSeq(R.inp, 1, R.dflt))
\* integer_var(prefix, n, log_trick): sum_i 2^i x_i (or sum_i x_i), n distinct variables, named
IntVar == Clause("IntVar", ~On("intvar") \/
    LET p == FromRawB(R.terms) IN
    /\ Cardinality(DOMAIN p) = R.nbits /\ \A m \in DOMAIN p : Cardinality(m) = 1
    /\ {p[m] : m \in DOMAIN p} = (IF R.log_trick THEN {Pow2(i) : i \in 0..(R.nbits - 1)} ELSE (IF R.nbits > 0 THEN {1} ELSE {}))
    /\ R.name_ok)
\* cheap derived properties of a model
Props == Clause("Props", ~On("props") \/
    LET p == FromRaw(R.spin, R.terms) IN
    /\ R.offset = Offset(p) /\ R.num_terms = Cardinality(DOMAIN p)
    /\ (R.matrix => R.max_index = (IF VarsOf(p) = {} THEN -1 ELSE Max(VarsOf(p)))))
\* schedules: explicit lists are returned as they are; named schedules have the requested length, the requested end
\* points, and never heat up
Schedule == Clause("Schedule", ~On("schedule") \/ (R.len_ok /\ R.first_ok /\ R.last_ok /\ R.monotone))
\* AnnealResult comparisons are by value only; equality needs state, value and flag
AROrder == Clause("AROrder", ~On("arorder") \/ (R.lt = (R.v1 < R.v2) /\ R.le = (R.v1 <= R.v2) /\ R.eq = (R.v1 = R.v2 /\ R.same_state /\ R.same_flag)))
=============================================================================
