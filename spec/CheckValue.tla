----------------------------- MODULE CheckValue -----------------------------
(***************************************************************************)
(* C05, evaluation functions: pubo_value, qubo_value, puso_value and       *)
(* quso_value on RAW dictionaries - keys with repeated labels (x*x = x,    *)
(* z*z = 1), the same monomial under several keys - for every assignment,  *)
(* handed over as a dict, a list or a tuple.  The value must be the direct *)
(* evaluation of the polynomial the dictionary denotes (Poly.FromRaw).     *)
(***************************************************************************)
EXTENDS Poly, Json, IOUtils
Recs == ndJsonDeserialize(IOEnv.QV_RECS)
VARIABLES c
Init == c = 0
Next == c = 0 /\ c' \in 1..Len(Recs)
Spec == Init /\ [][Next]_c
R == Recs[c]
Want == Eval(R.spin, FromRaw(R.spin, R.terms), ToSet(R.ones))
ValueIsEvaluation == c = 0 \/ (R.raised = "" /\ \A q \in 1..Len(R.values) : R.values[q] = Want)
                     \/ (PrintT(<<"QVVIOL", "ValueIsEvaluation", c, R.fn>>) /\ FALSE)
=============================================================================
