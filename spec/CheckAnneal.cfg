SPECIFICATION Spec
INVARIANT NoRaise
INVARIANT ResultCount
INVARIANT Domain
INVARIANT Values
INVARIANT SpinFlag
INVARIANT ValueIsEnergy
INVARIANT BestIsMin
INVARIANT ResultType
INVARIANT ArgUnchanged
CHECK_DEADLOCK FALSE
