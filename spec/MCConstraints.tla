---------------------------- MODULE MCConstraints ----------------------------
(***************************************************************************)
(* Design-level check (TLC): the transcription of the constraint methods   *)
(* in Constraints.tla satisfies the contract for EVERY polynomial over two *)
(* labels with coefficients in Coefs, every relation, log_trick both ways, *)
(* several kinds of user-supplied bounds, and - Mode "gate" - every gate   *)
(* method for arities up to MaxArity over labels and small expressions.    *)
(* The case is chosen in several steps so that TLC's workers share it.     *)
(***************************************************************************)
EXTENDS Constraints
CONSTANTS Mode, CoefSel, Lams, BoundKinds, MaxArity,
          MaxAnc   \* the truth-table clause is evaluated only for penalties with at most this many ancillas
VARIABLES ph, sup, P, rel, lt, lam, bk, anc0, gate, geq, gops, ga
vars == <<ph, sup, P, rel, lt, lam, bk, anc0, gate, geq, gops, ga>>
Labels == {"a", "b"}
Coefs == IF CoefSel = "full" THEN {-2, -1, 1, 2} ELSE {-1, 1, 2}
Monos == SUBSET Labels
Spin == Mode = "spin"
Init == /\ ph = 0 /\ sup = {} /\ P = Zero /\ rel = "eq" /\ lt = TRUE /\ lam = 1 /\ bk = "none" /\ anc0 = 0
        /\ gate = "AND" /\ geq = FALSE /\ gops = << >> /\ ga = Zero
\* true extrema of P (boolean or spin)
TrueMin == IF Spin THEN MinS(P) ELSE MinB(P)
TrueMax == IF Spin THEN MaxS(P) ELSE MaxB(P)
BoundsOf(k) == CASE k = "none" -> NoB
                 [] k = "exact" -> Given(TrueMin, TrueMax)
                 [] k = "loose" -> Given(TrueMin - 1, TrueMax + 2)
                 [] k = "lo" -> Given(TrueMin, NoBound)
                 [] k = "hi" -> Given(NoBound, TrueMax + 1)
\* operands of gates: labels, a negated label, a conjunction
GLabels == {"a", "b", "c", "d"}
OperandPool == {Var(l) : l \in GLabels} \cup {NotP(Var("a")), MulB(Var("a"), Var("b"))}
Unch == UNCHANGED <<gate, geq, gops, ga>>
UnchC == UNCHANGED <<sup, P, rel, lt, lam, bk, anc0>>
NextCmp == \/ ph = 0 /\ ph' = 1 /\ sup' \in SUBSET Monos /\ UNCHANGED <<P, rel, lt, lam, bk, anc0>> /\ Unch
           \/ ph = 1 /\ ph' = 2 /\ P' \in [sup -> Coefs] /\ UNCHANGED <<sup, rel, lt, lam, bk, anc0>> /\ Unch
           \/ ph = 2 /\ ph' = 3 /\ rel' \in Rels /\ lt' \in BOOLEAN /\ lam' \in Lams /\ bk' \in BoundKinds /\ anc0' \in {0, 2}
              /\ UNCHANGED <<sup, P>> /\ Unch
NextGate == \/ ph = 0 /\ ph' = 1 /\ gate' \in Gates /\ geq' \in BOOLEAN /\ lam' \in Lams /\ UNCHANGED <<gops, ga>> /\ UNCHANGED <<sup, P, rel, lt, bk, anc0>>
            \/ ph = 1 /\ ph' = 3
               /\ \E n \in 1..MaxArity : gops' \in [1..n -> OperandPool]
               /\ ga' \in {Var("d"), NotP(Var("c"))}
               /\ UNCHANGED <<gate, geq>> /\ UnchC
Next == IF Mode = "gate" THEN NextGate ELSE NextCmp
Spec == Init /\ [][Next]_vars
\* Spin mode: the PCSO wrapper constrains ToBool(H) with a PCBO and converts the penalty back with pubo_to_puso; by
\* PolyLaws (ToSpinLaw) the spin penalty denotes the same function, so the contract is checked on the boolean penalty
\* against ToBool(H) (sets of minus spins = sets of ones) - the spin form itself is compared in CheckConstraints.
PB == IF Spin THEN ToBool(P) ELSE P
R == Apply(rel, PB, lam, lt, BoundsOf(bk), anc0)
AncNames(lo, hi) == {Anc(k) : k \in lo..(hi - 1)}
\* unary slack (log_trick = FALSE) needs as many ancillas as the range is wide: cases with a wide range are left to
\* the log_trick variant (the product of polynomials with > 10 ancillas is too slow for TLC to be worth it here)
Width == LET a == ApproxB(PB) IN a.hi - a.lo
Tractable == lt \/ Width <= MaxAnc
Active == ph = 3 /\ Mode # "gate" /\ Tractable
Checkable == Cardinality(VarsOf(R.F) \ Labels) <= MaxAnc
PenaltyExactInv == (Active /\ Checkable) => PenaltyExact(FALSE, R.F, PB, rel, lam, 1, Labels, R.unsat)
AncFresh == Active => (VarsOf(R.F) \ Labels) \subseteq AncNames(anc0, R.anc) /\ R.anc >= anc0
\* the library never announces "cannot be satisfied" for a satisfiable constraint (bounds are enclosures here)
UnsatSound == Active => (R.unsat => \A x \in SUBSET Labels : ~Holds(rel, Eval(Spin, P, x)))
\* the penalty is linear in the weight (mechanism behind C16: no branch depends on lam)
LamLinear == Active => LET r1 == Apply(rel, PB, 1, lt, BoundsOf(bk), anc0)
                       IN R.F = Scale(lam, r1.F) /\ R.anc = r1.anc
\* gates
GActive == ph = 3 /\ Mode = "gate"
ArityOK == IF gate \in {"BUFFER", "NOT"} THEN Len(gops) = 1 ELSE IF geq THEN Len(gops) >= 2 ELSE Len(gops) >= 1
GF == IF geq THEN GateEq(gate, ga, gops, lam) ELSE GateC(gate, gops, lam)
GateInv == (GActive /\ ArityOK) => GateOK(GF, gate, geq, ga, gops, lam, GLabels)
BuildInv == (GActive /\ ~geq) => BuildOK(gate, gops, GLabels)
=============================================================================
