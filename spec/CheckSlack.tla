----------------------------- MODULE CheckSlack -----------------------------
(***************************************************************************)
(* C02/C03: the size of the binary slack register.  An inequality over a   *)
(* range of width v needs num_bits(v) = bit length of v slack bits (with   *)
(* the log trick); Constraints.tla uses exactly that number.  The truth-   *)
(* table clauses of CheckConstraints.tla cover small ranges; here the REAL *)
(* helper is called on values far beyond them, v = 2^k + d (0 <= d < 2^k)  *)
(* or v = 2^k - d (0 < d <= 2^(k-1)), handed over as (k, d, minus) so that *)
(* TLC needs no large integers:  bit length = k + 1, respectively k.       *)
(***************************************************************************)
EXTENDS Integers, Sequences, Json, IOUtils, TLC
Recs == ndJsonDeserialize(IOEnv.QV_RECS)
VARIABLES c
Init == c = 0
Next == c = 0 /\ c' \in 1..Len(Recs)
Spec == Init /\ [][Next]_c
R == Recs[c]
BitLength == IF R.minus THEN R.k ELSE R.k + 1
SlackBits == c = 0 \/ (R.raised = "" /\ R.out = BitLength) \/ (PrintT(<<"QVVIOL", "SlackBits", c, R.k>>) /\ FALSE)
=============================================================================
