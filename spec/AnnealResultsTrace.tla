------------------------ MODULE AnnealResultsTrace ------------------------
(***************************************************************************)
(* Validates traces recorded from the REAL qubovert.sim.AnnealResults      *)
(* against AnnealResults.tla.  A trace is a sequence of steps              *)
(*   [op, raised, rtype, items, best]                                      *)
(* where op is the operation the harness performed on the real objects     *)
(* (taken from a behaviour TLC generated from the same module) and         *)
(* items/best is the projection of the two real collections AFTER it.      *)
(*                                                                         *)
(* Each step fires the specification action named by the logged op with    *)
(* the logged arguments; the clauses below are then evaluated on           *)
(* <<spec state, logged state>>:                                           *)
(*   ItemsMatch     list contents are pinned: equal to the spec's          *)
(*   ImplBestIsMin  the contract of C13 on the IMPLEMENTATION's state      *)
(*   ImplNoRaise    no exception (the spec only generates operations a     *)
(*                  plain list accepts)                                    *)
(*   ImplType       derived collections are AnnealResults                  *)
(*   SortedOK       after sort the implementation's list is ordered        *)
(* Which minimal element `best` is, and the order of equal values after    *)
(* sort, are free (DESIGN 2.1); a difference from the spec's choice is     *)
(* reported as drift (QVINFO), never as a violation.                       *)
(* Many traces are validated per run: one initial state per trace id.      *)
(***************************************************************************)
EXTENDS AnnealResults, Json, IOUtils
Traces == ndJsonDeserialize(IOEnv.QV_TRACES)
VARIABLES tid, l
tvars == <<vars, tid, l>>
Steps == Traces[tid].steps
St == Steps[l - 1]                       \* the logged step that produced the current state
ToElem(e) == [id |-> e[1], v |-> e[2], sp |-> e[3]]
ImplItems(s, k) == [i \in 1..Len(s.items[k]) |-> ToElem(s.items[k][i])]
ImplBest(s, k) == IF Len(s.best[k]) = 0 THEN None ELSE ToElem(s.best[k])
ImplCol(s, k) == [items |-> ImplItems(s, k), best |-> ImplBest(s, k)]

Clause(name, cond) == cond \/ (PrintT(<<"QVVIOL", name, tid, l - 1>>) /\ FALSE)
ItemsMatchP == IF l = 1 THEN TRUE ELSE \A k \in Coll : c[k].items = ImplItems(St, k)
ImplBestIsMinP == IF l = 1 THEN TRUE ELSE \A k \in Coll : BestIsMinOf(ImplCol(St, k))
ImplNoRaiseP == IF l = 1 THEN TRUE ELSE St.raised = ""
Derived == {"copy", "add", "mul", "getslice", "everyother", "reversed", "filter", "filter_states",
            "apply_function", "convert_states", "to_boolean", "to_spin", "construct"}
ImplTypeP == IF l = 1 THEN TRUE ELSE (St.op[1] \in Derived => St.rtype = "AnnealResults")
SortedOKP == IF l = 1 THEN TRUE ELSE (St.op[1] = "sort" => LET s == ImplItems(St, St.op[2]) IN \A i \in 1..(Len(s) - 1) : s[i].v <= s[i+1].v)
ItemsMatch == Clause("ItemsMatch", ItemsMatchP)
ImplBestIsMin == Clause("ImplBestIsMin", ImplBestIsMinP)
ImplNoRaise == Clause("ImplNoRaise", ImplNoRaiseP)
ImplType == Clause("ImplType", ImplTypeP)
SortedOK == Clause("SortedOK", SortedOKP)
\* (IF, not \/ : inside an action TLC explores both sides of a disjunction)
AllOK == ItemsMatchP /\ ImplBestIsMinP /\ ImplNoRaiseP /\ ImplTypeP /\ SortedOKP

Fire(o) ==
  CASE o[1] = "append" -> DoAppend(o[2], o[3])
    [] o[1] = "add_state" -> DoAddState(o[2], o[3])
    [] o[1] = "insert" -> DoInsert(o[2], o[3], o[4])
    [] o[1] = "pop" -> DoPop(o[2], o[3])
    [] o[1] = "remove" -> DoRemove(o[2], o[3])
    [] o[1] = "clear" -> DoClear(o[2])
    \* sort: take the implementation's order if it is one of the allowed value-sorted permutations
    [] o[1] = "sort" -> IF ImplItems(Steps[l], o[2]) \in SortedPerms(c[o[2]].items)
                        THEN DoSortAny(o[2], ImplItems(Steps[l], o[2])) ELSE DoSort(o[2])
    [] o[1] = "sortkey" -> DoSortKey(o[2], o[3], o[4])
    [] o[1] = "extend_iter" -> DoExtend("extend_iter", o[2], o[3], TRUE)
    [] o[1] = "iadd_iter" -> DoExtend("iadd_iter", o[2], o[3], TRUE)
    [] o[1] = "extend" -> DoExtend("extend", o[2], o[3], o[4])
    [] o[1] = "iadd" -> DoExtend("iadd", o[2], o[3], o[4])
    [] o[1] = "setitem" -> DoSetItem(o[2], o[3], o[4])
    [] o[1] = "delitem" -> DoDelItem(o[2], o[3])
    [] o[1] = "setslice" -> DoSetSlice(o[2], o[3], o[4], o[5])
    [] o[1] = "delslice" -> DoDelSlice(o[2], o[3], o[4])
    [] o[1] = "copy" -> DoCopy(o[2], o[3])
    [] o[1] = "add" -> DoAdd(o[2], o[3], o[4], o[5])
    [] o[1] = "mul" -> DoMul(o[2], o[3], o[4])
    [] o[1] = "getslice" -> DoGetSlice(o[2], o[3], o[4], o[5])
    [] o[1] = "everyother" -> DoEveryOther(o[2], o[3])
    [] o[1] = "reversed" -> DoReversed(o[2], o[3])
    [] o[1] = "filter" -> DoFilter(o[2], o[3], o[4])
    [] o[1] = "filter_states" -> DoFilterStates(o[2], o[3], o[4])
    [] o[1] = "apply_function" -> DoApply(o[2], o[3])
    [] o[1] = "convert_states" -> DoConvertStates(o[2], o[3])
    [] o[1] = "to_boolean" -> DoToBoolean(o[2], o[3])
    [] o[1] = "to_spin" -> DoToSpin(o[2], o[3])
    [] o[1] = "construct" -> DoConstruct(o[2], o[3], o[4])
    [] OTHER -> FALSE

TraceInit == Init /\ tid \in 1..Len(Traces) /\ l = 1
TraceNext == /\ l <= Len(Steps) /\ (AllOK = TRUE)
             /\ Fire(Steps[l].op)
             /\ l' = l + 1 /\ tid' = tid
TraceSpec == TraceInit /\ [][TraceNext]_tvars
\* A logged operation that is not enabled in the specification state ends the validation of that trace WITHOUT a verdict:
\* the operations were generated from a behaviour of the specification, and after a legitimate free choice of the
\* implementation (order of equal values after sort) the two may have drifted apart, so that a later generated
\* operation is one a plain list rejects too.  Any wrong state was already reported where it arose (ItemsMatch).
NotStuck == (l > Len(Steps)) \/ ~AllOK \/ (ENABLED TraceNext) \/ PrintT(<<"QVINFO", "truncated", tid, l>>)
\* drift: the implementation's best differs from the spec's choice (allowed)
Drift == l = 1 \/ ~AllOK \/ (\A k \in Coll : c[k].best = ImplBest(St, k)) \/ PrintT(<<"QVINFO", "drift-best", tid, l - 1>>)
=============================================================================
