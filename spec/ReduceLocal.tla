---------------------------- MODULE ReduceLocal ----------------------------
(***************************************************************************)
(* The finite lemma that makes Exact and NeverUndercut of Reduce.tla       *)
(* inductive for models of ANY size.  One Substitute step changes          *)
(* (D + Pending - M) at an assignment by                                   *)
(*       v*r*(z - x*y) + lam*G(x,y,z)                                      *)
(* where r in {0,1} is the product of the untouched factors of the current *)
(* key.  TLC checks (constant mode): the change is 0 when z = x*y (any     *)
(* lam), >= 0 when lam >= |v|, and lam = |v| - 1 admits an undercut.       *)
(***************************************************************************)
EXTENDS Integers, TLC
B == {0, 1}
G(x, y, z) == 3*z + x*y - 2*z*(x + y)
AbsV(v) == IF v < 0 THEN -v ELSE v
Change(v, lam, r, x, y, z) == v*r*(z - x*y) + lam*G(x, y, z)
ASSUME GadgetFacts == \A x, y, z \in B : G(x,y,z) >= 0 /\ (G(x,y,z) = 0 <=> z = x*y) /\ (z # x*y => G(x,y,z) >= 1)
ASSUME StepLemma == \A v \in -8..8, lam \in 0..9, r, x, y, z \in B :
          /\ (z = x*y => Change(v, lam, r, x, y, z) = 0)
          /\ (lam >= AbsV(v) => Change(v, lam, r, x, y, z) >= 0)
ASSUME Tight == \A v \in {-8, -3, 3, 8} : \E r, x, y, z \in B : Change(v, AbsV(v) - 1, r, x, y, z) < 0
=============================================================================
