------------------------------ MODULE CheckSolve ------------------------------
(***************************************************************************)
(* C09: contract of the brute-force solvers (utils/_solve_bruteforce.py    *)
(* and the solve_bruteforce methods), evaluated by TLC on the results of   *)
(* real calls.  Record: the model (raw terms), the labels the solver must  *)
(* range over, the validity predicate (a named family evaluable on both    *)
(* sides), all_solutions, and the returned objective and assignment(s).    *)
(* An assignment is the set of labels that are 1 (boolean) / -1 (spin).    *)
(***************************************************************************)
EXTENDS Poly, Json, IOUtils
Recs == ndJsonDeserialize(IOEnv.QV_RECS)
NR == Len(Recs)
VARIABLES c, ph, x, k      \* k: the chosen record's model, canonicalised once and carried in the state
vars == <<c, ph, x, k>>
Init == c = 0 /\ ph = 0 /\ x = {} /\ k = Zero
Next == \/ ph = 0 /\ ph' = 1 /\ c' \in 1..16 /\ UNCHANGED <<x, k>>
        \/ ph = 1 /\ ph' = 2 /\ x' = x /\ \E i \in {j \in 1..NR : j % 16 = c % 16} : c' = i /\ k' = FromRaw(Recs[i].spin, Recs[i].model)
        \/ ph = 2 /\ ph' = 3 /\ c' = c /\ k' = k /\ x' \in SUBSET ToSet(Recs[c].K)
Spec == Init /\ [][Next]_vars
R == Recs[c]
M == k
K == ToSet(R.K)
Value(a) == Eval(R.spin, M, a)
Valid(a) == CASE R.valid_kind = "true" -> TRUE
              [] R.valid_kind = "false" -> FALSE
              [] R.valid_kind = "label" -> R.valid_arg[1] \in a
              [] R.valid_kind = "atmost" -> Cardinality(a) <= R.valid_arg[1]
              [] R.valid_kind = "parity" -> Cardinality(a) % 2 = 0
Clause(name, cond) == cond \/ (PrintT(<<"QVVIOL", name, c, R.id>>) /\ FALSE)
Case == ph = 2
Point == ph = 3
Good == R.raised = ""
HasObj == Len(R.obj) = 1
Obj == R.obj[1]
SolOn(q) == ToSet(R.sols[q][1])
SolKeys(q) == ToSet(R.sols[q][2])
AnyValid == \E a \in SUBSET K : Valid(a)
NoRaise == Clause("NoRaise", ~Case \/ Good)
\* the model - terms AND bookkeeping (variables, mapping, degree, ...) - is as before the call
ArgUnchanged == Clause("ArgUnchanged", ~Case \/ R.unchanged)
\* a second identical call, made after the caller scribbled into the first result, returns what the first call returned
SecondCallSame == Clause("SecondCallSame", ~(Case /\ Good) \/ R.second_same)
\* the labels the reported assignments range over: every mentioned label for a plain dict; for a model object whose
\* bookkeeping is stale anything between the variables of the function and model.variables (the same for all of them)
KS == IF R.kind = "dict" \/ Len(R.sols) = 0 THEN K ELSE SolKeys(1)
\* (a model whose terms are constant but whose bookkeeping still reports variables - a cancelled term - falls under neither
\* sentence of the statement unambiguously and is not judged)
\* no valid assignment <=> objective None.  For a model without variables the statement's other sentence applies ("a
\* constant model yields the constant with an empty assignment", the code does not consult `valid` there), so the two
\* sentences are only judged where they do not compete.
NoneIffNoValid == Clause("NoneIffNoValid", ~(Case /\ Good /\ VarsOf(M) # {}) \/ (HasObj <=> AnyValid))
\* the reported solutions are valid, attain the objective, and range over exactly the model's variables
SolutionsOK == Clause("SolutionsOK", ~(Case /\ Good /\ HasObj /\ VarsOf(M) # {}) \/
    /\ Len(R.sols) >= 1
    /\ \A q \in 1..Len(R.sols) : SolKeys(q) = KS
    /\ \A q \in 1..Len(R.sols) : /\ SolOn(q) \subseteq SolKeys(q)
                                 /\ VarsOf(M) \subseteq SolKeys(q) /\ SolKeys(q) \subseteq K
                                 /\ Valid(SolOn(q)) /\ Value(SolOn(q)) = Obj)
NoDuplicates == Clause("NoDuplicates", ~(Case /\ Good /\ R.all) \/ \A q1, q2 \in 1..Len(R.sols) : q1 # q2 => SolOn(q1) # SolOn(q2))
SingleWhenNotAll == Clause("SingleWhenNotAll", ~(Case /\ Good /\ ~R.all /\ HasObj) \/ Len(R.sols) = 1)
\* a constant model yields the constant with an empty assignment
ConstantModel == Clause("ConstantModel", ~(Case /\ Good /\ K = {}) \/ (HasObj /\ Obj = Offset(M) /\ Len(R.sols) >= 1 /\ \A q \in 1..Len(R.sols) : SolKeys(q) = {}))
\* per assignment: nothing valid lies below the objective; with all_solutions every valid minimiser is reported
IsMinimum == Clause("IsMinimum", ~(Point /\ Good /\ VarsOf(M) # {}) \/ (Valid(x) => (HasObj /\ Value(x) >= Obj)))
AllMinimisers == Clause("AllMinimisers", ~(Point /\ Good /\ R.all /\ HasObj) \/
    ((Valid(x) /\ Value(x) = Obj) => \E q \in 1..Len(R.sols) : SolOn(q) = x \cap KS /\ SolKeys(q) = KS))
=============================================================================
