SPECIFICATION Spec
CONSTANTS
  N = 3
  Coefs <- CoefsM1
  MaxDeg = 2
  CacheFactor = 4
INVARIANT CacheExact
INVARIANT SubgraphExact
PROPERTY ZeroTempMonotone
CHECK_DEADLOCK FALSE
