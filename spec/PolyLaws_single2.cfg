SPECIFICATION Spec
CONSTANTS
  Labels = {"a","b"}
  CoefSet <- CoefSingle
  PairMode = FALSE
INVARIANT EvalScaleNeg
INVARIANT ToSpinLaw
INVARIANT ToSpinLaw2
INVARIANT ToBoolLaw
INVARIANT RoundTrip
INVARIANT MoebiusB
INVARIANT UniqueB
INVARIANT UniqueS
INVARIANT ExtremaB
INVARIANT ExtremaS
INVARIANT PowLaw
INVARIANT SubValueLaw
INVARIANT SubGraphLaw
INVARIANT RawLaw
INVARIANT NestedLaw
CHECK_DEADLOCK FALSE
