SPECIFICATION Spec
CONSTANTS
  N = 4
  Deg = 2
  CoefSel = "full"
  MaxTerms = 2
  LamMode = "default"
  OncePerPair = FALSE
INVARIANT Exact
INVARIANT NeverUndercut
INVARIANT DegOK
INVARIANT LabelsOK
INVARIANT SameMinimum
CHECK_DEADLOCK FALSE
