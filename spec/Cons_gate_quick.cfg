SPECIFICATION Spec
CONSTANTS
  Mode = "gate"
  CoefSel = "small"
  Lams = {2}
  BoundKinds = {"none"}
  MaxAnc = 7
  MaxArity = 3
INVARIANT GateInv
INVARIANT BuildInv
CHECK_DEADLOCK FALSE
