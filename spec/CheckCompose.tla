---------------------------- MODULE CheckCompose ----------------------------
(***************************************************************************)
(* C08: the constrained optimum survives penalisation, degree reduction    *)
(* and solution conversion.  A scenario is an objective f, a sequence of   *)
(* comparison / gate constraints with weights, built on a real PCBO or     *)
(* PCSO; one record per FORM of the scenario: the model itself ("self"),   *)
(* to_pubo, to_puso, to_qubo, to_quso.  TLC computes the feasible set and  *)
(* the constrained optimum from the constraints that were PASSED (never    *)
(* from penalties), evaluates the form on EVERY assignment of its          *)
(* variables (problem variables, constraint ancillas, reduction ancillas)  *)
(* and judges:                                                             *)
(*    Form(s) >= ConstrainedOpt                                            *)
(*    Form(s) = ConstrainedOpt  =>  convert(s) feasible and f-optimal      *)
(*    some s attains ConstrainedOpt                                        *)
(*    solve_bruteforce feasible and optimal; remove_ancilla_from_solution  *)
(* The antecedents (feasible constraints, every weight > max f - min f)    *)
(* are established by the specification itself.                            *)
(***************************************************************************)
EXTENDS Constraints, Json, IOUtils
Recs == ndJsonDeserialize(IOEnv.QV_RECS)
NR == Len(Recs)
VARIABLES c, ph, s, optv, k     \* k: the chosen record's polynomials, canonicalised ONCE when the record is chosen and
                                 \* carried in the state (a definition such as FormOf == TLCEval(..) is re-evaluated on use)
vars == <<c, ph, s, optv, k>>
R == Recs[c]
E(a) == Eval(R.spin_tgt, k.form, a)
Fv(xs) == Eval(R.spin_src, k.f, xs)
X == ToSet(R.X)                                   \* problem labels
MapOfRec(r) == LET mp == r.map IN [l \in {mp[q][1] : q \in 1..Len(mp)} |-> mp[CHOOSE q \in 1..Len(mp) : mp[q][1] = l][2]]
MapF == k.map
FormVars == ToSet(R.fvars)                        \* all variables of the form (ints, or label names for "self")
ConvX(a) == {l \in X : l \in DOMAIN MapF /\ MapF[l] \in a}
\* constraint polynomials, canonicalised once per record
Cache(r) == [form |-> FromRaw(r.spin_tgt, r.form), f |-> FromRaw(r.spin_src, r.f), map |-> MapOfRec(r),
             cp |-> [q \in 1..Len(r.cons) |-> FromRaw(r.spin_src, r.cons[q].P)],
             ga |-> [q \in 1..Len(r.cons) |-> FromRawB(r.cons[q].ga)],
             go |-> [q \in 1..Len(r.cons) |-> [j \in 1..Len(r.cons[q].ops) |-> FromRawB(r.cons[q].ops[j])]]]
NoCache == [form |-> Zero, f |-> Zero, map |-> << >>, cp |-> << >>, ga |-> << >>, go |-> << >>]
ConsHolds(q, xs) == LET kk == R.cons[q] IN
    IF kk.mode = "cmp" THEN Holds(kk.rel, Eval(R.spin_src, k.cp[q], xs))
    ELSE GateHolds(kk.gate, kk.geq, k.ga[q], k.go[q], xs)
FeasibleX(xs) == \A q \in 1..Len(R.cons) : ConsHolds(q, xs)
FeasSet == {xs \in SUBSET X : FeasibleX(xs)}
Spread == Max({Fv(xs) : xs \in SUBSET X}) - Min({Fv(xs) : xs \in SUBSET X})
Antecedent == FeasSet # {} /\ \A q \in 1..Len(R.cons) : R.cons[q].lam > Spread
Init == c = 0 /\ ph = 0 /\ s = {} /\ optv = <<FALSE, 0>> /\ k = NoCache
Next == \/ ph = 0 /\ ph' = 1 /\ c' \in 1..16 /\ UNCHANGED <<s, optv, k>>
        \/ ph = 1 /\ ph' = 2 /\ UNCHANGED <<s, optv>> /\ \E i \in {j \in 1..NR : j % 16 = c % 16} : c' = i /\ k' = Cache(Recs[i])
        \/ ph = 2 /\ ph' = 3 /\ c' = c /\ s' = s /\ k' = k
              /\ optv' = IF R.raised = "" /\ Antecedent THEN <<TRUE, Min({Fv(xs) : xs \in FeasSet})>> ELSE <<FALSE, 0>>
        \/ ph = 3 /\ ph' = 4 /\ c' = c /\ optv' = optv /\ k' = k /\ optv[1] /\ s' \in SUBSET FormVars
Spec == Init /\ [][Next]_vars
Clause(name, cond) == cond \/ (PrintT(<<"QVVIOL", name, c, R.id>>) /\ FALSE)
Case == ph = 3
Point == ph = 4
Good == R.raised = ""
Judged == optv[1]
Opt == optv[2]
NoRaise == Clause("NoRaise", ~Case \/ Good)
ArgUnchanged == Clause("ArgUnchanged", ~Case \/ R.unchanged)
\* every assignment of the form is at least the constrained optimum
NothingBelowConstrainedOpt == Clause("NothingBelowConstrainedOpt", ~(Point /\ Good /\ Judged) \/ E(s) >= Opt)
\* every minimiser converts to a feasible assignment that minimises f over the feasible ones
MinimisersConvert == Clause("MinimisersConvert", ~(Point /\ Good /\ Judged) \/
    (E(s) = Opt => (FeasibleX(ConvX(s)) /\ Fv(ConvX(s)) = Opt)))
\* the minimum of the form IS the constrained optimum
OptimumAttained == Clause("OptimumAttained", ~(Case /\ Good /\ Judged) \/ \E a \in SUBSET FormVars : E(a) = Opt)
\* the implementation's convert_solution agrees with the mapping on the problem labels (table in product order)
PosOf(v) == CHOOSE p \in 1..Len(R.fvars) : R.fvars[p] = v
IdxOf(a) == 1 + SumOver(a, LAMBDA v : Pow2(Len(R.fvars) - PosOf(v)))
ConvertOK == Clause("ConvertOK", ~(Point /\ Good /\ R.conv_complete) \/
    (ToSet(R.conv[IdxOf(s)][1]) = s /\ ToSet(R.conv[IdxOf(s)][2]) \cap X = ConvX(s)))
\* solve_bruteforce() returns a feasible assignment minimising f over the feasible ones
BruteForceOK == Clause("BruteForceOK", ~(Case /\ Good /\ Judged /\ R.has_bf) \/
    (FeasibleX(ToSet(R.bf) \cap X) /\ Fv(ToSet(R.bf) \cap X) = Opt /\ R.bf_valid))
\* remove_ancilla_from_solution returns exactly the non-ancilla part
RemoveAncillaOK == Clause("RemoveAncillaOK", ~(Case /\ Good) \/ R.remove_ok)
=============================================================================
