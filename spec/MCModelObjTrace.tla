-------------------------- MODULE MCModelObjTrace --------------------------
EXTENDS ModelObjTrace
CONSTANT Depth
ValsM101 == {-1, 0, 1}
Vals01 == {0, 1}
StaleOps == {"setitem", "toenum", "refresh", "copy", "new", "setmap"}
LitOps == {"setitem", "augadd", "imul", "bin", "mulraise", "value"}
=============================================================================
