SPECIFICATION Spec
CONSTANTS
  Labels = {"a","b"}
  CoefSet <- CoefPair
  PairMode = TRUE
INVARIANT AddLaw
INVARIANT MulBLaw
INVARIANT MulSLaw
INVARIANT Commute
CHECK_DEADLOCK FALSE
