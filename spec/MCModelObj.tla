---------------------------- MODULE MCModelObj ----------------------------
(* model-checking wrapper: constants with negative numbers, depth bound *)
EXTENDS ModelObj
CONSTANT Depth
ValsM101 == {-1, 0, 1}
Vals01 == {0, 1}
StaleOps == {"setitem", "toenum", "refresh", "copy", "new", "setmap"}
LitOps == {"setitem", "augadd", "imul", "bin", "mulraise", "value"}
ValsM1012 == {-1, 0, 1, 2}
LabelsInt == {0, 2}
DepthBound == TLCGet("level") <= Depth
=============================================================================
