SPECIFICATION Spec
INVARIANT ValueIsEvaluation
CHECK_DEADLOCK FALSE
