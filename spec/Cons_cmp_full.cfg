SPECIFICATION Spec
CONSTANTS
  Mode = "cmp"
  CoefSel = "full"
  Lams = {1, 3}
  BoundKinds = {"none", "exact", "loose", "lo", "hi"}
  MaxAnc = 9
  MaxArity = 1
INVARIANT PenaltyExactInv
INVARIANT AncFresh
INVARIANT UnsatSound
INVARIANT LamLinear
CHECK_DEADLOCK FALSE
