------------------------------ MODULE ModelObj ------------------------------
(***************************************************************************)
(* Implementation-shaped model of the qubovert model objects               *)
(*   QUBO QUSO PUBO PUSO PCBO PCSO   (labelled kinds: class BO)            *)
(*   QUBOMatrix QUSOMatrix PUBOMatrix PUSOMatrix (integer keyed kinds)     *)
(* i.e. of utils/_dict_arithmetic.py, utils/_pubomatrix.py,                *)
(* utils/_pusomatrix.py, utils/_bo_parentclass.py, _pcbo.py (bookkeeping). *)
(*                                                                         *)
(* An object is a record                                                   *)
(*   kind  : name of the class                                             *)
(*   ts    : the stored terms as a SEQUENCE <<monomial, coef>> in Python   *)
(*           dict (insertion) order; monomials are sets (squashed keys)    *)
(*   vars, deg : the cached _variables / _degree (deg = -1 stands for the  *)
(*           code's -inf); num_binary_variables is Cardinality(vars)       *)
(*   map, nl : BO._mapping and BO._next_label (labelled kinds)             *)
(*   anc   : PCBO._ancilla, gen : indices of the ancilla names this        *)
(*           object (or the object it was copied from) has generated,      *)
(*   ncons : number of recorded constraints                                *)
(* Every mutator of the classes is a pure function  <Name>R(record, ...)   *)
(* built, like the code, from SetItemR (one __setitem__).  Both the state  *)
(* machine below (checked exhaustively by TLC) and ModelObjTrace.tla (which*)
(* validates histories recorded from the real classes) use these functions.*)
(*                                                                         *)
(* FixedReg = FALSE : pinned BO.__setitem__ (registers labels of the RAW   *)
(*                    key whatever the value)              -- defect F1    *)
(* FixedMul = FALSE : pinned `*=` with a dict operand on PCBO/PCSO resets  *)
(*                    the ancilla counter and the constraints -- defect F8 *)
(***************************************************************************)
EXTENDS Poly
CONSTANTS Labels,     \* labels of the model variables (strings for labelled kinds, Nat for Matrix kinds)
          Vals,       \* coefficients used in edits (includes 0)
          MaxKeyLen,  \* raw keys have at most this many labels (repeats allowed)
          Kind1, Kind2,   \* class of slot 1 and of slot 2
          FixedReg, FixedMul,
          MaxTerms,   \* bound on the number of stored terms (state constraint)
          Ops         \* names of the operation families enabled in Next (all of them: AllOps)
VARIABLES o, op
vars == <<o, op>>
Kinds == <<Kind1, Kind2>>
Slots == DOMAIN Kinds

\* ---------------- kinds ----------------
IsSpin(k) == k \in {"QUSO", "PUSO", "PCSO", "QUSOMatrix", "PUSOMatrix"}
IsQuad(k) == k \in {"QUBO", "QUSO", "QUBOMatrix", "QUSOMatrix"}
IsLabelled(k) == k \in {"QUBO", "QUSO", "PUBO", "PUSO", "PCBO", "PCSO"}
IsConstr(k) == k \in {"PCBO", "PCSO"}

\* ---------------- ordered terms (a Python dict) ----------------
IdxOf(ts, m) == CHOOSE i \in 1..Len(ts) : ts[i][1] = m
Has(ts, m) == \E i \in 1..Len(ts) : ts[i][1] = m
Get(ts, m) == IF Has(ts, m) THEN ts[IdxOf(ts, m)][2] ELSE 0
Put(ts, m, v) == IF v = 0 THEN SelectSeq(ts, LAMBDA t : t[1] # m)
                 ELSE IF Has(ts, m) THEN [ts EXCEPT ![IdxOf(ts, m)] = <<m, v>>]
                 ELSE Append(ts, <<m, v>>)
PolyOf(ts) == [m \in {ts[i][1] : i \in 1..Len(ts)} |-> Get(ts, m)]
KeySeq(m) == SetToSeq(m)                    \* the stored key as a tuple (order inside a key is not modelled)
ItemsOf(ts) == [i \in 1..Len(ts) |-> <<KeySeq(ts[i][1]), ts[i][2]>>]     \* dict.items() as raw <<key, value>>

\* ---------------- one __setitem__ ----------------
RECURSIVE Register(_, _, _, _)
Register(map, nl, k, i) == IF i > Len(k) THEN [map |-> map, nl |-> nl]
                           ELSE IF k[i] \in DOMAIN map THEN Register(map, nl, k, i + 1)
                           ELSE Register([x \in DOMAIN map \cup {k[i]} |-> IF x = k[i] THEN nl ELSE map[x]], nl + 1, k, i + 1)
\* (IF, not \/ : at action level TLC would explore both sides of a disjunction separately)
KeyOK(kind, k) == IF IsQuad(kind) THEN Cardinality(Squash(IsSpin(kind), k)) <= 2 ELSE TRUE     \* else KeyError
SetItemR(r, k, v) ==
    LET m == Squash(IsSpin(r.kind), k)
        regKey == IF FixedReg THEN (IF v # 0 THEN SelectSeq(k, LAMBDA x : x \in m) ELSE << >>) ELSE k
        reg == IF IsLabelled(r.kind) THEN Register(r.map, r.nl, regKey, 1) ELSE [map |-> r.map, nl |-> r.nl]
    IN [r EXCEPT !.ts = Put(@, m, v),
                 !.vars = IF v # 0 THEN @ \cup m ELSE @,
                 !.deg = IF v # 0 THEN Max2(@, Cardinality(m)) ELSE @,
                 !.map = reg.map, !.nl = reg.nl]
AugAddR(r, k, v) == SetItemR(r, k, Get(r.ts, Squash(IsSpin(r.kind), k)) + v)        \* self[k] += v

\* ---------------- composite mutators, exactly as the code composes them ----------------
Fresh(kind) == [kind |-> kind, ts |-> << >>, vars |-> {}, deg |-> -1, map |-> << >>, nl |-> 0,
                anc |-> 0, gen |-> {}, ncons |-> 0]
RECURSIVE FoldAugAdd(_, _, _, _), FoldPut(_, _, _)
FoldAugAdd(r, items, sgn, i) == IF i > Len(items) THEN r ELSE FoldAugAdd(AugAddR(r, items[i][1], sgn * items[i][2]), items, sgn, i + 1)
FoldPut(r, items, i) == IF i > Len(items) THEN r ELSE FoldPut(SetItemR(r, items[i][1], items[i][2]), items, i + 1)
IAddR(r, items) == FoldAugAdd(r, items, 1, 1)                 \* self += dict
ISubR(r, items) == FoldAugAdd(r, items, -1, 1)                \* self -= dict
IAddScalarR(r, s) == AugAddR(r, << >>, s)                  \* self += number  ->  self[()] += number
AbsI(v) == IF v < 0 THEN -v ELSE v
DivisibleBy(r, c) == \A i \in 1..Len(r.ts) : r.ts[i][2] % AbsI(c) = 0
ExactDivI(v, c) == IF c < 0 THEN -(v \div (-c)) ELSE v \div c
UpdateR(r, items) == FoldPut(r, items, 1)                  \* self.update(dict)
\* clear(): dict.clear() and re-run __init__(): caches, mapping, ancilla counter and constraints are reset
ClearR(r) == Fresh(r.kind)
\* class(other): __init__ then self[k] += v for every item; PCBO/PCSO given their own class also take
\* constraints and the ancilla counter
CtorR(kind, src) == LET b == FoldAugAdd(Fresh(kind), ItemsOf(src.ts), 1, 1)
                    IN IF IsConstr(kind) /\ src.kind = kind
                       THEN [b EXCEPT !.anc = src.anc, !.gen = src.gen, !.ncons = src.ncons] ELSE b
CopyR(r) == CtorR(r.kind, r)
RefreshR(r) == CopyR(r)                                    \* d = copy(); clear(); __init__(d)
\* self *= dict : items snapshot, self.clear(), then self[k + ko] += v * vo for all pairs
RECURSIVE MulInner(_, _, _, _, _), MulOuter(_, _, _, _)
MulInner(acc, k, v, oitems, j) == IF j > Len(oitems) THEN acc
                                  ELSE MulInner(AugAddR(acc, k \o oitems[j][1], v * oitems[j][2]), k, v, oitems, j + 1)
MulOuter(acc, items, oitems, i) == IF i > Len(items) THEN acc
                                   ELSE MulOuter(MulInner(acc, items[i][1], items[i][2], oitems, 1), items, oitems, i + 1)
IMulR(r, oitems) == LET c == ClearR(r)
                        \* gen is a history variable (what was generated), it survives in either case
                        c2 == IF FixedMul THEN [c EXCEPT !.anc = r.anc, !.gen = r.gen, !.ncons = r.ncons] ELSE [c EXCEPT !.gen = r.gen]
                    IN MulOuter(c2, ItemsOf(r.ts), oitems, 1)
\* self *= number : self[k] *= number for every stored key (caches untouched)
IMulScalarR(r, s) == FoldPut(r, [i \in 1..Len(r.ts) |-> <<KeySeq(r.ts[i][1]), r.ts[i][2] * s>>], 1)
RECURSIVE IPowR(_, _, _)
IPowR(r, olditems, e) == IF e <= 1 THEN r ELSE IPowR(IMulR(r, olditems), olditems, e - 1)
\* every product key (also intermediate ones) must be storable, else KeyError
MulKeysOK(r, oitems) == \A i \in 1..Len(r.ts), j \in 1..Len(oitems) : KeyOK(r.kind, KeySeq(r.ts[i][1]) \o oitems[j][1])
ItemsOK(kind, items) == \A i \in 1..Len(items) : KeyOK(kind, items[i][1])
\* a constraint method: adds penalty terms that use n fresh ancillas, records the constraint.
\* (WHICH terms is the business of Constraints.tla; here: some terms over the new ancilla names.)
AncName(j) == "__a" \o ToString(j)
RECURSIVE AddAncTerms(_, _, _, _)
AddAncTerms(r, x, j, n) == IF n = 0 THEN r
                           ELSE AddAncTerms(AugAddR(AugAddR(r, <<AncName(j)>>, 1), <<x, AncName(j)>>, -2), x, j + 1, n - 1)
\* variants of constraint calls the conformance harness makes: 0: eq (no ancilla), 1/2: le with 1/2 slack bits,
\* 3: ge, 4: lt, 5: ne (sign bit + slack)
AncCount(v) == CASE v = 0 -> 0 [] v = 1 -> 1 [] v = 2 -> 2 [] v = 3 -> 1 [] v = 4 -> 1 [] OTHER -> 3
AddConsR(r, x, v) == LET n == AncCount(v)
                         b == AddAncTerms(r, x, r.anc, n)
                     IN [b EXCEPT !.anc = r.anc + n, !.gen = r.gen \cup (r.anc..(r.anc + n - 1)), !.ncons = r.ncons + 1]

\* ---------------- operators that are not in place (C05): copy the model operand, apply the in-place form -------------
AddR(r, items) == IAddR(CopyR(r), items)                    \* self + other
SubR(r, items) == ISubR(CopyR(r), items)                    \* self - other
MulR(r, items) == IMulR(CopyR(r), items)                    \* self * other
AddScalarR(r, c) == IAddScalarR(CopyR(r), c)
SubScalarR(r, c) == AugAddR(CopyR(r), << >>, -c)            \* self[()] -= c
MulScalarR(r, c) == IMulScalarR(CopyR(r), c)
NegR(r) == MulScalarR(r, -1)                                \* -self == -1 * self == self * -1
RSubR(r, items) == AddR(NegR(r), items)                     \* other - self == -1*self + other
RSubScalarR(r, c) == AddScalarR(NegR(r), c)
PowR(r, e) == LET d == CopyR(r) IN IPowR(d, ItemsOf(CopyR(d).ts), e)     \* d = copy; old = d.copy(); d *= old ...
Divisible(r, c) == \A i \in 1..Len(r.ts) : r.ts[i][2] % Abs(c) = 0
ExactDiv(v, c) == IF c < 0 THEN -(v \div (-c)) ELSE v \div c           \* v is a multiple of c
DivR(r, c) == LET d == CopyR(r) IN FoldPut(d, [i \in 1..Len(d.ts) |-> <<KeySeq(d.ts[i][1]), ExactDiv(d.ts[i][2], c)>>], 1)
BinR(name, r, items, refl) ==
    CASE name = "add" -> AddR(r, items)                     \* other + self == self + other
      [] name = "mul" -> MulR(r, items)                     \* other * self == self * other
      [] name = "sub" -> IF refl THEN RSubR(r, items) ELSE SubR(r, items)
BinScalarR(name, r, c, refl) ==
    CASE name = "add" -> AddScalarR(r, c)
      [] name = "mul" -> MulScalarR(r, c)
      [] name = "sub" -> IF refl THEN RSubScalarR(r, c) ELSE SubScalarR(r, c)

\* ---------------- the state machine ----------------
RawKeys == UNION {[1..n -> Labels] : n \in 0..MaxKeyLen}
\* plain dict operands, as raw item lists: repeated labels, zero values, keys that squash to the same monomial
LitDicts == LET a == CHOOSE x \in Labels : TRUE
                b == CHOOSE x \in Labels : x # a
            IN { << >>, << <<<<a>>, 1>> >>, << <<<<a, b>>, 1>>, <<<<b, a>>, -1>> >>, << <<<<b, b>>, 2>>, <<<< >>, -1>> >>,
                 << <<<<a>>, 0>>, <<<<b>>, 1>> >> }
Init == o = [s \in Slots |-> Fresh(Kinds[s])] /\ op = <<"init">>
Small(r) == Len(r.ts) <= MaxTerms
Operand(j, lit) == IF j = 0 THEN lit ELSE ItemsOf(o[j].ts)
\* TLC's integers are 32-bit: a history is only continued from objects whose coefficients are small enough that no single
\* operation (a cube at most) can overflow
CoefsSmall == \A q \in Slots : \A i \in 1..Len(o[q].ts) : o[q].ts[i][2] <= 100 /\ o[q].ts[i][2] >= -100
Step(s, r, name) == CoefsSmall /\ (LET rr == r IN Small(rr) /\ o' = [o EXCEPT ![s] = rr] /\ op' = name)

DoSetItem(s, k, v) == KeyOK(o[s].kind, k) /\ Step(s, SetItemR(o[s], k, v), <<"setitem", s, k, v>>)
DoAugAdd(s, k, v) == KeyOK(o[s].kind, k) /\ Step(s, AugAddR(o[s], k, v), <<"augadd", s, k, v>>)
DoIAdd(s, j, lit) == ItemsOK(o[s].kind, Operand(j, lit)) /\ Step(s, IAddR(o[s], Operand(j, lit)), <<"iadd", s, j, lit>>)
DoISub(s, j, lit) == ItemsOK(o[s].kind, Operand(j, lit)) /\ Step(s, ISubR(o[s], Operand(j, lit)), <<"isub", s, j, lit>>)
DoUpdate(s, j, lit) == ItemsOK(o[s].kind, Operand(j, lit)) /\ Step(s, UpdateR(o[s], Operand(j, lit)), <<"update", s, j, lit>>)
DoIMul(s, j, lit) == MulKeysOK(o[s], Operand(j, lit)) /\ Step(s, IMulR(o[s], Operand(j, lit)), <<"imul", s, j, lit>>)
DoIAddScalar(s, c) == TRUE /\ Step(s, IAddScalarR(o[s], c), <<"iadd_scalar", s, c>>)
DoIMulScalar(s, c) == TRUE /\ Step(s, IMulScalarR(o[s], c), <<"imul_scalar", s, c>>)
\* self -= number  ->  self[()] -= number ;  self /= c  ->  self[k] /= c for every stored key (only exact divisions are generated)
ISubScalarR(r, c) == AugAddR(r, << >>, -c)
IDivR(r, c) == FoldPut(r, [i \in 1..Len(r.ts) |-> <<KeySeq(r.ts[i][1]), ExactDivI(r.ts[i][2], c)>>], 1)
DoISubScalar(s, c) == TRUE /\ Step(s, ISubScalarR(o[s], c), <<"isub_scalar", s, c>>)
DoIDiv(s, c) == DivisibleBy(o[s], c) /\ Step(s, IDivR(o[s], c), <<"idiv", s, c>>)
DoIPow(s) == MulKeysOK(o[s], ItemsOf(o[s].ts)) /\ Step(s, IPowR(o[s], ItemsOf(o[s].ts), 2), <<"ipow", s, 2>>)
DoClear(s) == TRUE /\ Step(s, ClearR(o[s]), <<"clear", s>>)
DoRefresh(s) == TRUE /\ Step(s, RefreshR(o[s]), <<"refresh", s>>)
DoCopy(s, d) == s # d /\ Step(d, CopyR(o[s]), <<"copy", s, d>>)
\* set_mapping(m): the user renumbers the registered labels (here: reversed or rotated numbering); the counter of the next
\* fresh integer is NOT touched, so labels met afterwards continue the numbering
SetMapR(r, mode) == [r EXCEPT !.map = [x \in DOMAIN r.map |-> IF mode = "rev" THEN r.nl - 1 - r.map[x] ELSE (r.map[x] + 1) % r.nl]]
DoSetMap(s, mode) == IsLabelled(o[s].kind) /\ o[s].nl >= 2 /\ Step(s, SetMapR(o[s], mode), <<"setmap", s, mode>>)
\* construction from a plain dict (raw keys: repeated labels, zero values, keys that squash together): class(dict)
NewR(kind, items) == FoldAugAdd(Fresh(kind), items, 1, 1)
DoNew(s, lit) == ItemsOK(o[s].kind, lit) /\ Step(s, NewR(o[s].kind, lit), <<"new", s, lit>>)
\* class.create_var(x) (boolean_var / spin_var for PCBO / PCSO): a NEW model holding the single variable x
VarR(kind, x) == SetItemR(Fresh(kind), <<x>>, 1)
DoVar(s, x) == TRUE /\ Step(s, VarR(o[s].kind, x), <<"var", s, x>>)
DoAddCons(s, x, n) == IsConstr(o[s].kind) /\ Step(s, AddConsR(o[s], x, n), <<"addcons", s, x, n>>)

\* binary operators: result into slot d, operands unchanged (a dict operand on the left uses the reflected form)
BinKeysOK(name, s, items) == IF name = "mul" THEN MulKeysOK(o[s], items) ELSE ItemsOK(o[s].kind, items)
DoBin(name, s, j, lit, d, refl) == /\ (refl => j = 0) /\ BinKeysOK(name, s, Operand(j, lit))
                                   /\ Step(d, BinR(name, o[s], Operand(j, lit), refl), <<"bin", s, name, j, lit, d, refl>>)
DoBinScalar(name, s, c, d, refl) == TRUE /\ Step(d, BinScalarR(name, o[s], c, refl), <<"binscalar", s, name, c, d, refl>>)
DoNeg(s, d) == TRUE /\ Step(d, NegR(o[s]), <<"neg", s, d>>)
DoPow(s, e, d) == /\ (e > 1 => MulKeysOK(o[s], ItemsOf(o[s].ts))) /\ (e > 2 => Degree(PolyOf(o[s].ts)) = 0 \/ ~IsQuad(o[s].kind))
                  /\ Step(d, PowR(o[s], e), <<"pow", s, e, d>>)
DoDiv(s, c, d) == Divisible(o[s], c) /\ Step(d, DivR(o[s], c), <<"div", s, c, d>>)
\* a product of quadratic-kind models whose value exceeds degree 2 must raise KeyError; nothing changes
DoMulRaise(s, j, lit, d) == /\ IsQuad(o[s].kind) /\ ~MulKeysOK(o[s], Operand(j, lit))
                            /\ UNCHANGED o /\ op' = <<"mulraise", s, j, lit, d>>
\* evaluation at an assignment (set of labels that are 1 / -1): observation only
DoValue(s, ones) == TRUE /\ UNCHANGED o /\ op' = <<"value", s, ones>>
\* C19: getters must hand out independent objects; copy constructor; get_info / create_from_info round trip
DoPoke(s) == TRUE /\ UNCHANGED o /\ op' = <<"poke", s>>
DoCtor(s, d) == s # d /\ Step(d, CopyR(o[s]), <<"ctor", s, d>>)
DoInfo(s, d) == s # d /\ Step(d, CopyR(o[s]), <<"info", s, d>>)
\* to_enumerated() / to_qubo(): observation only, the object is unchanged
DoToEnum(s, red) == IsLabelled(o[s].kind) /\ UNCHANGED o /\ op' = <<"toenum", s, red>>

AllOps == {"setitem", "augadd", "iadd", "isub", "update", "imul", "scalar", "ipow", "clear", "refresh", "copy", "addcons", "toenum", "new", "setmap", "var"}
ArithOps == {"setitem", "augadd", "iadd", "isub", "imul", "scalar", "ipow", "bin", "binscalar", "neg", "pow", "div", "value", "mulraise", "refresh", "var"}
AliasOps == {"setitem", "augadd", "iadd", "imul", "scalar", "update", "clear", "refresh", "copy", "ctor", "info", "poke", "addcons", "bin", "setmap", "var"}
BinNames == {"add", "sub", "mul"}
On(x) == x \in Ops
Next == \E s \in Slots :
          \/ On("setitem") /\ \E k \in RawKeys, v \in Vals : DoSetItem(s, k, v)
          \/ On("augadd") /\ \E k \in RawKeys, v \in Vals : DoAugAdd(s, k, v)
          \/ On("iadd") /\ ((\E j \in Slots : DoIAdd(s, j, << >>)) \/ (\E lit \in LitDicts : DoIAdd(s, 0, lit)))
          \/ On("isub") /\ ((\E j \in Slots : DoISub(s, j, << >>)) \/ (\E lit \in LitDicts : DoISub(s, 0, lit)))
          \/ On("update") /\ ((\E j \in Slots : DoUpdate(s, j, << >>)) \/ (\E lit \in LitDicts : DoUpdate(s, 0, lit)))
          \/ On("imul") /\ ((\E j \in Slots : DoIMul(s, j, << >>)) \/ (\E lit \in LitDicts : DoIMul(s, 0, lit)))
          \/ On("scalar") /\ \E c \in Vals : DoIAddScalar(s, c) \/ DoIMulScalar(s, c) \/ DoISubScalar(s, c)
          \/ On("scalar") /\ \E cc \in {-1, 2} : DoIDiv(s, cc)
          \/ On("ipow") /\ DoIPow(s)
          \/ On("clear") /\ DoClear(s)
          \/ On("refresh") /\ DoRefresh(s)
          \/ On("copy") /\ \E d \in Slots : DoCopy(s, d)
          \/ On("setmap") /\ \E mode \in {"rev", "rot"} : DoSetMap(s, mode)
          \/ On("new") /\ \E lit \in LitDicts : DoNew(s, lit)
          \/ On("var") /\ \E x \in Labels : DoVar(s, x)
          \/ On("addcons") /\ \E x \in Labels, n \in 0..5 : DoAddCons(s, x, n)
          \/ On("toenum") /\ \E red \in BOOLEAN : DoToEnum(s, red)
          \/ On("bin") /\ \E name \in BinNames, d \in Slots :
                 \/ \E j \in Slots : DoBin(name, s, j, << >>, d, FALSE)
                 \/ \E lit \in LitDicts, refl \in BOOLEAN : DoBin(name, s, 0, lit, d, refl)
          \/ On("binscalar") /\ \E name \in BinNames, d \in Slots, c \in Vals, refl \in BOOLEAN : DoBinScalar(name, s, c, d, refl)
          \/ On("neg") /\ \E d \in Slots : DoNeg(s, d)
          \/ On("pow") /\ \E d \in Slots, e \in 1..3 : DoPow(s, e, d)
          \/ On("div") /\ \E d \in Slots, cc \in {-1, 2} : DoDiv(s, cc, d)
          \/ On("mulraise") /\ \E d \in Slots : (\E j \in Slots : DoMulRaise(s, j, << >>, d)) \/ (\E lit \in LitDicts : DoMulRaise(s, 0, lit, d))
          \/ On("value") /\ \E ones \in SUBSET Labels : DoValue(s, ones)
          \/ On("poke") /\ DoPoke(s)
          \/ On("ctor") /\ \E d \in Slots : DoCtor(s, d)
          \/ On("info") /\ \E d \in Slots : DoInfo(s, d)
Spec == Init /\ [][Next]_vars

\* ---------------- the properties (C14), as predicates of ONE object record ----------------
TrueVars(r) == UNION {r.ts[i][1] : i \in 1..Len(r.ts)}
TrueDeg(r) == IF Len(r.ts) = 0 THEN -1 ELSE Max({Cardinality(r.ts[i][1]) : i \in 1..Len(r.ts)})
UpperBoundsR(r) == TrueVars(r) \subseteq r.vars /\ TrueDeg(r) <= r.deg
MappingBijectionR(r) == IsLabelled(r.kind) =>
                          /\ DOMAIN r.map = r.vars
                          /\ {r.map[x] : x \in DOMAIN r.map} = 0..(Cardinality(r.vars) - 1)
ExactR(r) == r.vars = TrueVars(r) /\ r.deg = TrueDeg(r)
StoredCanonicalR(r) == /\ \A i \in 1..Len(r.ts) : r.ts[i][2] # 0
                       /\ \A i, j \in 1..Len(r.ts) : i # j => r.ts[i][1] # r.ts[j][1]
\* the ancilla counter covers every ancilla name this object generated
AncCoversR(r) == \A g \in r.gen : g < r.anc

UpperBounds == \A s \in Slots : UpperBoundsR(o[s])
MappingBijection == \A s \in Slots : MappingBijectionR(o[s])
StoredCanonical == \A s \in Slots : StoredCanonicalR(o[s])
AncCovers == \A s \in Slots : AncCoversR(o[s])
\* refresh() leaves the function unchanged and makes the caches exact (action property)
RefreshExact == [][op'[1] = "refresh" => LET s == op'[2] IN
                     /\ PolyOf(o'[s].ts) = PolyOf(o[s].ts)
                     /\ ExactR(o'[s]) /\ MappingBijectionR(o'[s])
                     /\ o'[s].anc = o[s].anc /\ o'[s].ncons = o[s].ncons]_vars
\* ancilla names are never generated twice by one object (until it is cleared)
AncNeverReused == [][op'[1] = "addcons" => LET s == op'[2] IN (o'[s].gen \ o[s].gen) \cap o[s].gen = {}
                                                              /\ Cardinality(o'[s].gen) = Cardinality(o[s].gen) + AncCount(op'[4])]_vars
View == o
=============================================================================
