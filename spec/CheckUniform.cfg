SPECIFICATION Spec
INVARIANT Uniform
CHECK_DEADLOCK FALSE
