SPECIFICATION Spec
INVARIANT NoRaise
INVARIANT ArgUnchanged
INVARIANT AncillaNamesFresh
INVARIANT NumAncillasCovers
INVARIANT ConstraintRecorded
INVARIANT GateNoAncilla
INVARIANT NonNeg
INVARIANT ZeroWhenHolds
INVARIANT LamWhenViolated
INVARIANT ValidIffHolds
CHECK_DEADLOCK FALSE
