SPECIFICATION Spec
CONSTANTS
  N = 5
  Deg = 3
  CoefSel = "small"
  MaxTerms = 2
  LamMode = "const"
  OncePerPair = FALSE
INVARIANT Exact
INVARIANT NeverUndercut
INVARIANT DegOK
INVARIANT LabelsOK
INVARIANT SameMinimum
CHECK_DEADLOCK FALSE
