SPECIFICATION Spec
INVARIANT Report
INVARIANT StepsLegal
INVARIANT EmitLegal
INVARIANT ResultMatches
INVARIANT LamDominates
CHECK_DEADLOCK FALSE
