
