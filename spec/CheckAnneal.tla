----------------------------- MODULE CheckAnneal -----------------------------
(***************************************************************************)
(* C11: result-shape contract of anneal_qubo / anneal_quso / anneal_pubo / *)
(* anneal_puso (qubovert/sim/_anneal.py front end + C kernels), evaluated  *)
(* by TLC on the results of real calls.  One record per call:              *)
(*   fn, spinfn (function works on spins), kind, native (the Matrix kind   *)
(*   the function documents), matrix, user (raw terms of the model passed),*)
(*   reported (the model's reported variables), maxindex, num_anneals,     *)
(*   api [{st: [[label, value]], val, spin}], best, raised, unchanged      *)
(* All numbers are integers over the common denominator `den`.             *)
(***************************************************************************)
EXTENDS Poly, Json, IOUtils
Recs == ndJsonDeserialize(IOEnv.QV_RECS)
VARIABLES c, ph
vars == <<c, ph>>
NR == Len(Recs)
Chunks == 1..16
Init == c = 0 /\ ph = 0
Next == \/ ph = 0 /\ ph' = 1 /\ c' \in Chunks
        \/ ph = 1 /\ ph' = 2 /\ c' \in {i \in 1..NR : i % 16 = c % 16}
Spec == Init /\ [][Next]_vars
R == Recs[c]
Active == ph = 2
UserPoly(r) == FromRaw(r.spinfn, r.user)
Keys(st) == {st[q][1] : q \in 1..Len(st)}
ValOf(st, lab) == LET q == CHOOSE q \in 1..Len(st) : st[q][1] = lab IN st[q][2]
\* the assignment a state denotes: boolean -> set of ones, spin -> set of minus
AsgOf(r, st) == {lab \in Keys(st) : ValOf(st, lab) = (IF r.spinfn THEN -1 ELSE 1)}
Max0(n) == IF n < 0 THEN 0 ELSE n
Clause(name, cond) == (~Active) \/ cond \/ (PrintT(<<"QVVIOL", name, c, R.id>>) /\ FALSE)

NoRaise == Clause("NoRaise", R.raised = "")
Ok == Active /\ R.raised = ""
ResultCount == Clause("ResultCount", R.raised # "" \/ Len(R.api) = Max0(R.num_anneals))
NoDupKeys(st) == Cardinality(Keys(st)) = Len(st)
DomainOK(r, st) ==
    LET tv == VarsOf(UserPoly(r)) IN
    /\ NoDupKeys(st)
    \* Matrix input: every index from 0 to max_index; for a stale Matrix (reported variables are upper bounds, C14) any
    \* max_index between the true and the reported one is accepted
    /\ IF r.matrix /\ r.native THEN \E m \in (IF tv = {} THEN -1 ELSE Max(tv))..r.maxindex : Keys(st) = 0..m
       ELSE IF r.matrix THEN (\E m \in (IF tv = {} THEN -1 ELSE Max(tv))..r.maxindex : Keys(st) = 0..m)
                             \/ (tv \subseteq Keys(st) /\ Keys(st) \subseteq ToSet(r.reported))
       ELSE IF r.kind = "dict" THEN Keys(st) = tv
       ELSE tv \subseteq Keys(st) /\ Keys(st) \subseteq ToSet(r.reported)
Domain == Clause("Domain", R.raised # "" \/ \A a \in 1..Len(R.api) : DomainOK(R, R.api[a].st))
Values == Clause("Values", R.raised # "" \/ \A a \in 1..Len(R.api) : \A q \in 1..Len(R.api[a].st) :
                               R.api[a].st[q][2] \in (IF R.spinfn THEN {1, -1} ELSE {0, 1}))
SpinFlag == Clause("SpinFlag", R.raised # "" \/ \A a \in 1..Len(R.api) : R.api[a].spin = R.spinfn)
ValueIsEnergy == Clause("ValueIsEnergy", R.raised # "" \/ \A a \in 1..Len(R.api) :
                               R.api[a].val = Eval(R.spinfn, UserPoly(R), AsgOf(R, R.api[a].st)))
BestIsMin == Clause("BestIsMin", R.raised # "" \/
                       IF Len(R.api) = 0 THEN R.best = <<>>
                       ELSE /\ Len(R.best) = 1 /\ \A a \in 1..Len(R.api) : R.best[1] <= R.api[a].val
                            /\ \E a \in 1..Len(R.api) : R.best[1] = R.api[a].val)
ResultType == Clause("ResultType", R.raised # "" \/ R.rtype = "AnnealResults")
ArgUnchanged == Clause("ArgUnchanged", R.unchanged)
=============================================================================
