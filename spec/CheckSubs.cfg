SPECIFICATION Spec
INVARIANT NoRaise
INVARIANT SubsEqualsDirect
INVARIANT TypeSame
INVARIANT ConstraintsSame
INVARIANT SymbolicEvaluates
INVARIANT OriginalUnchanged
CHECK_DEADLOCK FALSE
