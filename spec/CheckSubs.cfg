SPECIFICATION Spec
INVARIANT NoRaise
INVARIANT SubsEqualsDirect
INVARIANT TypeSame
INVARIANT ConstraintsSame
INVARIANT SymbolicEvaluates
INVARIANT OriginalUnchanged
INVARIANT PythonEqual
INVARIANT SubsIndependent
CHECK_DEADLOCK FALSE
