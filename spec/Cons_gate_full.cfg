SPECIFICATION Spec
CONSTANTS
  Mode = "gate"
  CoefSel = "small"
  Lams = {1, 2}
  BoundKinds = {"none"}
  MaxAnc = 9
  MaxArity = 4
INVARIANT GateInv
INVARIANT BuildInv
CHECK_DEADLOCK FALSE
