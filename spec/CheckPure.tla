------------------------------ MODULE CheckPure ------------------------------
(***************************************************************************)
(* Pinned-result checks of the pure functions (DESIGN 2.1): the canonical  *)
(* form of what the REAL function returned (FromRaw, computed here) must   *)
(* equal the specification's result.  One record per call; `op` selects    *)
(* the clause family:                                                      *)
(*   C04  b2s, s2b (pubo_to_puso, qubo_to_quso, puso_to_pubo, quso_to_qubo)*)
(*        enum (to_pubo/puso/qubo/quso/enumerated without reduction),      *)
(*        convsol (value after convert_solution), Q, hJ, q2m, m2q          *)
(*   C07  sat (expression trees over the eight builders)                   *)
(*   C15  extrema (per assignment), temprange                              *)
(*   C18  subvalue, subgraph, normalize, subsym                            *)
(* All numbers are integers over the record's common denominator.          *)
(***************************************************************************)
EXTENDS Poly, Json, IOUtils
Recs == ndJsonDeserialize(IOEnv.QV_RECS)
NR == Len(Recs)
VARIABLES c, ph, x
vars == <<c, ph, x>>
Init == c = 0 /\ ph = 0 /\ x = {}
Next == \/ ph = 0 /\ ph' = 1 /\ c' \in 1..16 /\ x' = x
        \/ ph = 1 /\ ph' = 2 /\ c' \in {i \in 1..NR : i % 16 = c % 16} /\ x' = x
        \/ ph = 2 /\ ph' = 3 /\ c' = c /\ Recs[c].op \in {"extrema", "bounds", "extrema2"} /\ x' \in SUBSET ToSet(Recs[c].K)
Spec == Init /\ [][Next]_vars
R == Recs[c]
Clause(name, cond) == cond \/ (PrintT(<<"QVVIOL", name, c, R.id>>) /\ FALSE)
Case == ph = 2
Point == ph = 3
Good == R.raised = ""
Is(o) == Case /\ Good /\ R.op = o
M == FromRaw(R.spin, R.model)
Rp == FromRaw(R.result_spin, R.result)
PairsFun(ps) == [k \in {ps[i][1] : i \in 1..Len(ps)} |-> ps[CHOOSE i \in 1..Len(ps) : ps[i][1] = k][2]]

\* not judged: anneal_temperature_range on a model that MENTIONS labels but denotes a constant (a raw dict whose terms
\* cancel, like a stale model object: variables are only upper bounds there, see DESIGN 5)
MentionsLabelsButConstant == R.op = "temprange" /\ VarsOf(M) = {} /\ \E i \in 1..Len(R.model) : Len(R.model[i][1]) > 0
NoRaise == Clause("NoRaise", ~Case \/ Good \/ R.raise_ok \/ MentionsLabelsButConstant)
ArgUnchanged == Clause("ArgUnchanged", ~Case \/ R.unchanged)
ResultType == Clause("ResultType", ~(Case /\ Good) \/ R.expect_type = "" \/ R.rtype = R.expect_type)

\* ---------------- C04 ----------------
\* boolean -> spin: result * 2^d = ToSpinNum(model, d)
BoolToSpin == Clause("BoolToSpin", ~Is("b2s") \/ LET d == Degree(M) IN Scale(Pow2(d), Rp) = ToSpinNum(M, d))
SpinToBool == Clause("SpinToBool", ~Is("s2b") \/ Rp = ToBool(M))
\* enumerated forms: labels replaced by their mapping integers, function unchanged (target may be the other domain)
EnumTarget == LET mp == PairsFun(R.map) rel == Relabel(M, mp) d == Degree(M) IN
              IF R.spin = R.result_spin THEN [lhs |-> Rp, rhs |-> rel]
              ELSE IF R.result_spin THEN [lhs |-> Scale(Pow2(d), Rp), rhs |-> ToSpinNum(rel, d)]
              ELSE [lhs |-> Rp, rhs |-> ToBool(rel)]
Enumerated == Clause("Enumerated", ~Is("enum") \/
    /\ VarsOf(M) \subseteq DOMAIN PairsFun(R.map)
    /\ \A a, b \in DOMAIN PairsFun(R.map) : a # b => PairsFun(R.map)[a] # PairsFun(R.map)[b]
    /\ EnumTarget.lhs = EnumTarget.rhs)
\* M.value(M.convert_solution(s)) = value of the model at the labels whose integer is set in s
ConvertSolution == Clause("ConvertSolution", ~Is("convsol") \/ LET mp == PairsFun(R.map) IN
    \A q \in 1..Len(R.table) : R.table[q][2] = Eval(R.spin, M, {l \in DOMAIN mp : mp[l] \in ToSet(R.table[q][1])}))
\* exports describe the same function up to the constant
ExportSame == Clause("ExportSame", ~(Case /\ Good /\ R.op \in {"Q", "hJ", "q2m"}) \/ Rp = WoOffset(M))
MatrixToQubo == Clause("MatrixToQubo", ~Is("m2q") \/ Rp = M)

\* ---------------- C07 ----------------
\* a tree is <<"L", label>>, <<"M", raw boolean polynomial>> or <<gate, <<subtrees>>>>
RECURSIVE TruthT(_, _)
TruthT(t, a) == IF t[1] = "L" THEN (IF t[2] \in a THEN 1 ELSE 0)
                ELSE IF t[1] = "M" THEN EvalB(FromRawB(t[2]), a)
                ELSE LET vs == [i \in 1..Len(t[2]) |-> TruthT(t[2][i], a)]
                         ones == Cardinality({i \in 1..Len(vs) : vs[i] = 1})
                         andv == IF ones = Len(vs) THEN 1 ELSE 0
                         orv == IF ones > 0 THEN 1 ELSE 0
                         xorv == ones % 2
                     IN CASE t[1] = "AND" -> andv [] t[1] = "NAND" -> 1 - andv
                          [] t[1] = "OR" -> orv [] t[1] = "NOR" -> 1 - orv
                          [] t[1] = "XOR" -> xorv [] t[1] = "XNOR" -> 1 - xorv
                          [] t[1] = "BUFFER" -> vs[1] [] t[1] = "NOT" -> 1 - vs[1]
SatTruth == Clause("SatTruth", ~Is("sat") \/ Rp = FromTruth(ToSet(R.K), LAMBDA a : TruthT(R.tree, a)))

\* ---------------- C15 ----------------
EncloseAt == Clause("EncloseAt", ~(Point /\ Good /\ R.op # "extrema2") \/ (R.lo <= Eval(R.spin, M, x) /\ Eval(R.spin, M, x) <= R.hi))
\* coefficients c * 2^53 + d, handed over as two polynomials (of the c's and of the d's); numbers compare as pairs <<c, d>>
\* (the d-parts stay far below 2^52)
LexLE(a, b) == a[1] < b[1] \/ (a[1] = b[1] /\ a[2] <= b[2])
EncloseAt2 == Clause("EncloseAt2", ~(Point /\ Good /\ R.op = "extrema2") \/
    LET e == <<Eval(R.spin, FromRaw(R.spin, R.model_c), x), Eval(R.spin, M, x)>>
    IN LexLE(<<R.lo2[1], R.lo2[2]>>, e) /\ LexLE(e, <<R.hi2[1], R.hi2[2]>>))
\* "constant model": no term with a variable is stored (a raw dict whose terms merely cancel is not demanded to be exact)
ConstantExact == Clause("ConstantExact", ~Is("extrema") \/ (\E i \in 1..Len(R.model) : Len(R.model[i][1]) > 0) \/ (R.lo = Offset(M) /\ R.hi = Offset(M)))
TempRange == Clause("TempRange", ~Is("temprange") \/ (R.t0_ge_tf /\ R.tf_ge_0 /\ (R.novars => R.zero_zero)))

\* ---------------- C18 ----------------
SubValueSame == Clause("SubValueSame", ~Is("subvalue") \/ Rp = SubValue(M, PairsFun(R.vals)))
SubGraphSame == Clause("SubGraphSame", ~Is("subgraph") \/ Rp = SubGraph(M, ToSet(R.nodes), PairsFun(R.vals)))
\* result = (value / max|coef|) * model   <=>   result * max|coef| = value * model ; and max|result| = |value|
Normalized == Clause("Normalized", ~Is("normalize") \/ M = Zero \/
    (Scale(MaxAbsCoef(M), Rp) = Scale(R.norm_value, M) /\ MaxAbsCoef(Rp) = Abs(R.norm_value)))
\* symbolic substituted value: subvalue({x: s}).subs({s: c}) = subvalue({x: c})
SubSymbolic == Clause("SubSymbolic", ~Is("subsym") \/ Rp = SubValue(M, PairsFun(R.vals)))
=============================================================================
