SPECIFICATION Spec
CONSTANTS
  Mode = "spin"
  CoefSel = "full"
  Lams = {1, 3}
  BoundKinds = {"none", "exact", "loose"}
  MaxAnc = 9
  MaxArity = 1
INVARIANT PenaltyExactInv
INVARIANT AncFresh
INVARIANT UnsatSound
INVARIANT LamLinear
CHECK_DEADLOCK FALSE
