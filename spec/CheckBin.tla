------------------------------ MODULE CheckBin ------------------------------
(***************************************************************************)
(* C05, operand-pair tier: a + b, a - b, a x b for EVERY ordered pair of   *)
(* model classes of one domain (five boolean classes, five spin classes) and     *)
(* every ordered pair of polynomials of the universe emitted from          *)
(* spec/GenPoly.tla ("3t": three labels, coefficients -1/1, at most two    *)
(* terms - enough for degree-3 values, cancellation, and operands of       *)
(* different size).  The real operators are run on every combination; one  *)
(* record per (classes, a, b), one entry per operator.  Judged here:       *)
(*   Value      no exception => the stored function is a op b (Poly.tla)   *)
(*   MustRaise  left class quadratic and a op b has degree > 2 => KeyError *)
(*   MayNotRaise  no exception unless the left class is quadratic and some *)
(*              term the operator has to write has more than 2 labels      *)
(*   OnlyKeyError  any exception raised is KeyError                        *)
(*   Class      result class: the operands' class if they agree, else one  *)
(*              of the two (the statement does not say which)              *)
(*   Canonical  result stored canonically                                  *)
(*   Unchanged  both operands as before                                    *)
(*   Commutes   a+b == b+a and a*b == b*a as Python objects' dict equality *)
(*              whenever both could be formed (same function => equal)     *)
(* and for the in-place forms a += b, a -= b, a *= b, a.update(b) on a     *)
(* fresh copy of a: Value, the raise rules, Class (a's), Canonical,        *)
(* b unchanged, and Bookkeeping (C14: reported variables / degree /        *)
(* variable count bound the true ones afterwards).                         *)
(***************************************************************************)
EXTENDS Poly, Json, IOUtils
Recs == ndJsonDeserialize(IOEnv.QV_RECS)
NR == Len(Recs)
VARIABLES c, ph
vars == <<c, ph>>
Init == c = 0 /\ ph = 0
Next == \/ ph = 0 /\ ph' = 1 /\ c' \in 1..16
        \/ ph = 1 /\ ph' = 2 /\ c' \in {i \in 1..NR : i % 16 = c % 16}
Spec == Init /\ [][Next]_vars
R == Recs[c]
Case == ph = 2
Quad(kind) == kind \in {"QUBO", "QUSO", "QUBOMatrix", "QUSOMatrix"}
A == FromRaw(R.spin, R.a)
B == FromRaw(R.spin, R.b)
\* a.update(b): b's coefficients replace a's
Upd == Norm(DOMAIN A \cup DOMAIN B, LAMBDA m : IF m \in DOMAIN B THEN B[m] ELSE A[m])
Expect(op) == CASE op \in {"add", "iadd"} -> Add(A, B) [] op \in {"sub", "isub"} -> Sub(A, B)
                [] op \in {"mul", "imul"} -> Mul(R.spin, A, B) [] op = "update" -> Upd
                [] op = "neg" -> Neg(A) [] op = "pow2" -> Pow(R.spin, A, 2) [] op = "pow3" -> Pow(R.spin, A, 3)
                [] op = "pow4" -> Pow(R.spin, A, 4) [] op = "pow5" -> Pow(R.spin, A, 5)
Unary(op) == op \in {"neg", "pow2", "pow3", "pow4", "pow5"}
InPlace(op) == op \in {"iadd", "isub", "imul", "update"}
\* the keys the operator has to write into a copy of the left operand
Comb(m, n) == IF R.spin THEN SDiff(m, n) ELSE m \cup n
WrittenKeys(op) == IF op \in {"mul", "imul"} THEN {Comb(m, n) : m \in DOMAIN A, n \in DOMAIN B} ELSE DOMAIN B
AllShort(op) == \A m \in WrittenKeys(op) : Cardinality(m) <= 2
Clause(name, cond) == cond \/ (PrintT(<<"QVVIOL", name, c, R.id>>) /\ FALSE)
Ops == 1..Len(R.ops)
O(q) == R.ops[q]
Value == Clause("Value", ~Case \/ \A q \in Ops : O(q).raised # "" \/ FromRaw(R.spin, O(q).res) = Expect(O(q).op))
MustRaise == Clause("MustRaise", ~Case \/ \A q \in Ops : (Quad(R.kl) /\ Degree(Expect(O(q).op)) > 2) => O(q).raised = "KeyError")
\* (for a power of a quadratic class only the non-quadratic-degree results are demanded to raise; intermediate products are not modelled)
MayNotRaise == Clause("MayNotRaise", ~Case \/ \A q \in Ops :
                  (IF Unary(O(q).op) THEN ~Quad(R.kl) \/ O(q).op = "neg" ELSE ~Quad(R.kl) \/ AllShort(O(q).op)) => O(q).raised = "")
OnlyKeyError == Clause("OnlyKeyError", ~Case \/ \A q \in Ops : O(q).raised \in {"", "KeyError"})
Class == Clause("Class", ~Case \/ \A q \in Ops : O(q).raised # "" \/ IF InPlace(O(q).op) \/ Unary(O(q).op) THEN O(q).rkind = R.kl ELSE O(q).rkind \in {R.kl, R.kr})
\* the in-place forms a += b, a -= b, a *= b, a.update(b): afterwards a's reported variables, degree and variable count
\* bound the true ones (C14) - whatever fast path the pair of classes takes
Bookkeeping == Clause("Bookkeeping", ~Case \/ \A q \in Ops : (O(q).raised = "" /\ InPlace(O(q).op)) =>
                  LET res == FromRaw(R.spin, O(q).res) IN
                  /\ VarsOf(res) \subseteq ToSet(O(q).vars) /\ (DOMAIN res = {} \/ Degree(res) <= O(q).deg)
                  /\ O(q).nvars = Cardinality(ToSet(O(q).vars)))
Canonical == Clause("Canonical", ~Case \/ \A q \in Ops : O(q).raised # "" \/ RawCanonical(O(q).res))
Unchanged == Clause("Unchanged", ~Case \/ \A q \in Ops : (InPlace(O(q).op) \/ O(q).a_same) /\ O(q).b_same)
Commutes == Clause("Commutes", ~Case \/ \A q \in Ops : O(q).comm \in {"na", "eq"})
=============================================================================
