---------------------------- MODULE ReduceTrace ----------------------------
(***************************************************************************)
(* Validates reduction certificates recorded from the real                 *)
(* PUBO._reduce_degree (hook H1) against the step machine of Reduce.tla:   *)
(* every logged substitution must be a legal Substitute (pair inside the   *)
(* current key, key still too long, ancilla either the one already         *)
(* standing for that pair or the next fresh label, which starts at the     *)
(* number of variables), every term end a legal Emit, the certificate must *)
(* cover the mapped model, and the D built by the specification from the   *)
(* logged steps must equal the matrix the code returned.  By ReduceLocal   *)
(* every such certificate satisfies Exact, and NeverUndercut when the      *)
(* logged penalties dominate (LamDominates), for models of any size.       *)
(* `bad` names the first failing clause.                                   *)
(***************************************************************************)
EXTENDS Poly, Json, IOUtils
Certs == ndJsonDeserialize(IOEnv.QV_TRACES)
VARIABLES tid, ti, si, key, D, anc, nextAnc, done, bad
vars == <<tid, ti, si, key, D, anc, nextAnc, done, bad>>
C == Certs[tid]
Gadget(z, x, y) == Add(Add(Mono({z}, 3), Mono({x, y}, 1)), Add(Mono({z, x}, -2), Mono({z, y}, -2)))
Term == C.cert[ti]
Init == /\ tid \in 1..Len(Certs) /\ ti = 1 /\ si = 1 /\ D = Zero /\ anc = << >> /\ nextAnc = Certs[tid].n
        /\ key = IF Len(Certs[tid].cert) > 0 THEN ToSet(Certs[tid].cert[1].key0) ELSE {}
        /\ done = FALSE /\ bad = ""
StepCheck(st) == LET x == st[1] y == st[2] z == st[3] IN
    IF Cardinality(key) <= C.deg THEN "ReduceOnlyWhileTooLong"
    ELSE IF x = y \/ ~({x, y} \subseteq key) THEN "PairInKey"
    ELSE IF z \in DOMAIN anc /\ anc[z] # {x, y} THEN "AncillaStandsForOtherPair"
    ELSE IF z \notin DOMAIN anc /\ z # nextAnc THEN "FreshAncillaIsNextLabel"
    ELSE IF z \in key THEN "AncillaAlreadyInKey"
    ELSE ""
Substitute == /\ ~done /\ bad = "" /\ ti <= Len(C.cert) /\ si <= Len(Term.steps)
              /\ LET st == Term.steps[si] x == st[1] y == st[2] z == st[3] lam == st[4] IN
                 /\ bad' = StepCheck(st)
                 /\ IF z \in DOMAIN anc THEN UNCHANGED <<anc, nextAnc>>
                    ELSE anc' = [a \in DOMAIN anc \cup {z} |-> IF a = z THEN {x, y} ELSE anc[a]] /\ nextAnc' = nextAnc + 1
                 /\ D' = Add(D, Scale(lam, Gadget(z, x, y)))
                 /\ key' = (key \ {x, y}) \cup {z}
              /\ si' = si + 1 /\ UNCHANGED <<tid, ti, done>>
Emit == /\ ~done /\ bad = "" /\ ti <= Len(C.cert) /\ si = Len(Term.steps) + 1
        /\ bad' = IF Cardinality(key) > C.deg THEN "EmitOnlyWhenShortEnough"
                  ELSE IF key # ToSet(Term.key) THEN "EmittedKey" ELSE ""
        /\ D' = Add(D, Mono(key, Term.v))
        /\ ti' = ti + 1 /\ si' = 1
        /\ key' = IF ti + 1 <= Len(C.cert) THEN ToSet(C.cert[ti + 1].key0) ELSE {}
        /\ UNCHANGED <<tid, anc, nextAnc, done>>
MappedM == FromRawB([i \in 1..Len(C.cert) |-> <<C.cert[i].key0, C.cert[i].v>>])
Finish == /\ ~done /\ bad = "" /\ ti = Len(C.cert) + 1
          /\ bad' = IF D # FromRawB(C.D) THEN "ReturnedMatrixEqualsSteps"
                    ELSE IF MappedM # FromRawB(C.M) THEN "CertificateCoversModel"
                    ELSE IF \E x \in VarsOf(MappedM) : x >= C.n THEN "ModelLabelsBelowN"
                    ELSE ""
          /\ done' = TRUE /\ UNCHANGED <<tid, ti, si, key, D, anc, nextAnc>>
Next == Substitute \/ Emit \/ Finish
Spec == Init /\ [][Next]_vars
Report == bad = "" \/ (PrintT(<<"QVVIOL", bad, tid, ti>>) /\ FALSE)
StepsLegal == bad \notin {"ReduceOnlyWhileTooLong", "PairInKey", "AncillaStandsForOtherPair", "FreshAncillaIsNextLabel", "AncillaAlreadyInKey"}
EmitLegal == bad \notin {"EmitOnlyWhenShortEnough", "EmittedKey"}
ResultMatches == bad \notin {"ReturnedMatrixEqualsSteps", "CertificateCoversModel", "ModelLabelsBelowN"}
\* the default penalty (and every penalty the generator asks for in this tier) dominates the reduced coefficient
LamDominates == \/ ~C.expect_dominates
                \/ (\A i \in 1..Len(C.cert) : \A q \in 1..Len(C.cert[i].steps) : C.cert[i].steps[q][4] >= Abs(C.cert[i].v))
                \/ (PrintT(<<"QVVIOL", "LamDominates", tid, 0>>) /\ FALSE)
=============================================================================
