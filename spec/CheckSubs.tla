------------------------------ MODULE CheckSubs ------------------------------
(***************************************************************************)
(* C16: symbolic weights commute with substitution.  One record per        *)
(* scenario: the model built with a sympy symbol as weight (coefficients   *)
(* affine in the symbol: c0 + c1*lam, carried as integer pairs over the    *)
(* record's denominator), the model obtained from it by subs(lam -> c),    *)
(* and the model built directly with the number c.                         *)
(*   SubsEqualsDirect   the two models have the same terms (pinned)        *)
(*   TypeSame, ConstraintsSame                                             *)
(*   SymbolicEvaluates  evaluating the recorded symbolic coefficients at c *)
(*                      gives the direct model (subs does what it says)    *)
(*   OriginalUnchanged  subs leaves the symbolic model unchanged           *)
(***************************************************************************)
EXTENDS Poly, Json, IOUtils
Recs == ndJsonDeserialize(IOEnv.QV_RECS)
VARIABLES c
Init == c = 0
Next == c = 0 /\ c' \in 1..Len(Recs)
Spec == Init /\ [][Next]_c
R == Recs[c]
On == c # 0
Good == R.raised = ""
Clause(name, cond) == cond \/ (PrintT(<<"QVVIOL", name, c, R.id>>) /\ FALSE)
Sq(k) == Squash(R.spin, k)
\* the symbolic model at lam = cnum/cden, numerators over den*cden
SymAt == LET ts == R.sym
             ms == {Sq(ts[i][1]) : i \in 1..Len(ts)}
         IN Norm(ms, LAMBDA m : SumOver({i \in 1..Len(ts) : Sq(ts[i][1]) = m}, LAMBDA i : ts[i][2] * R.cden + ts[i][3] * R.cnum))
Direct == FromRaw(R.spin, R.direct)
Subbed == FromRaw(R.spin, R.subbed)
ConsP(cs) == [q \in 1..Len(cs) |-> <<cs[q][1], FromRaw(R.spin, cs[q][2])>>]
NoRaise == Clause("NoRaise", ~On \/ Good)
SubsEqualsDirect == Clause("SubsEqualsDirect", ~(On /\ Good) \/ Subbed = Direct)
TypeSame == Clause("TypeSame", ~(On /\ Good) \/ (R.type_subbed = R.type_direct /\ R.type_sym = R.type_direct))
ConstraintsSame == Clause("ConstraintsSame", ~(On /\ Good) \/ ConsP(R.cons_subbed) = ConsP(R.cons_direct))
SymbolicEvaluates == Clause("SymbolicEvaluates", ~(On /\ Good /\ R.affine) \/ SymAt = Scale(R.cden, Direct))
OriginalUnchanged == Clause("OriginalUnchanged", ~(On /\ Good) \/ R.orig_unchanged)
\* the substituted model also compares equal to the direct one under the library's own == (no symbolic objects left behind)
PythonEqual == Clause("PythonEqual", ~(On /\ Good) \/ R.py_equal)
\* subs returns a model of its own also when there is nothing (left) to substitute: the harness wrote into the result of a
\* further subs call on the substituted and on the directly built model, and neither changed
SubsIndependent == Clause("SubsIndependent", ~(On /\ Good) \/ R.subs_independent)
=============================================================================
