--------------------------- MODULE ModelObjTrace ---------------------------
(***************************************************************************)
(* Validates histories recorded from the REAL model classes against        *)
(* ModelObj.tla.  A history is a sequence of steps [op, raised, slots, out]*)
(* with `slots` the projection of the two real objects after the           *)
(* operation: kind, raw stored terms in dict order, variables,             *)
(* num_binary_variables, degree, mapping, reverse_mapping, num_ancillas,   *)
(* number of recorded constraints.                                         *)
(*                                                                         *)
(* Step l:  pred' = <specification function named by the logged op>(o)     *)
(*          o'    = the logged state (the free components - caches,        *)
(*                  mapping numbering, dict order - are bound from the log)*)
(* Clauses on <<pred, o>> (one INVARIANT each, DESIGN 2.1):                *)
(*   TermsMatch        pinned: the stored function equals the spec's       *)
(*   KindMatch         pinned: class of every object                       *)
(*   ImplUpperBounds, ImplMappingBijection, ImplStoredCanonical,           *)
(*   ImplRefreshExact, ImplAncCovers, ImplAncFresh, ImplEnumLabels         *)
(*                     the C14 contract evaluated on the IMPLEMENTATION's  *)
(*                     state                                               *)
(*   ImplUnchangedOthers  objects that are not the target of the operation *)
(*                     are unchanged (no aliasing)                         *)
(*   ImplNoRaise       no exception (only legal operations are generated)  *)
(* Drift (caches that differ from the spec's prediction while satisfying   *)
(* the contract) is printed as QVINFO, never a violation.                  *)
(***************************************************************************)
EXTENDS ModelObj, Json, IOUtils
Traces == ndJsonDeserialize(IOEnv.QV_TRACES)
VARIABLES tid, l, pred, prev
tvars == <<vars, tid, l, pred, prev>>
Steps == Traces[tid].steps
St == Steps[l - 1]

PairsToFun(ps) == [x \in {ps[i][1] : i \in 1..Len(ps)} |-> (CHOOSE i \in 1..Len(ps) : ps[i][1] = x) ]
MapOf(ps) == LET idx == PairsToFun(ps) IN [x \in DOMAIN idx |-> ps[idx[x]][2]]
\* logged slot -> record of ModelObj shape (monomial of a raw key: ToSet; canonicity of the raw keys is a separate clause)
FromLog(sl) == [kind |-> sl.kind,
                ts |-> [i \in 1..Len(sl.ts) |-> <<ToSet(sl.ts[i][1]), sl.ts[i][2]>>],
                vars |-> ToSet(sl.vars), deg |-> sl.deg,
                map |-> MapOf(sl.map), nl |-> Len(sl.map),
                anc |-> sl.anc, gen |-> {}, ncons |-> sl.ncons, cons |-> sl.cons, name |-> sl.name]
FreshL(kind, nm) == [kind |-> kind, ts |-> << >>, vars |-> {}, deg |-> -1, map |-> << >>, nl |-> 0,
                     anc |-> 0, gen |-> {}, ncons |-> 0, cons |-> << >>, name |-> nm]
Logged(step) == [s \in Slots |-> FromLog(step.slots[s])]
NoGen(r) == [r EXCEPT !.gen = {}]

\* ---- which specification function an op denotes ----
Items(x) == x       \* a literal dict operand is logged as a raw item list <<key, value>>
Opd(oo, j, lit) == IF j = 0 THEN lit ELSE ItemsOf(oo[j].ts)
\* the slot an operation writes (0: none - every object must be unchanged)
Target(opr) == CASE opr[1] \in {"copy", "neg", "ctor", "info"} -> opr[3]
                 [] opr[1] = "bin" -> opr[6]
                 [] opr[1] = "binscalar" -> opr[5]
                 [] opr[1] \in {"pow", "div"} -> opr[4]
                 [] opr[1] \in {"value", "mulraise", "poke", "toenum"} -> 0
                 [] OTHER -> opr[2]
Apply(opr, oo) ==
  LET s == opr[2] r == oo[s] IN
  CASE opr[1] = "setitem" -> [oo EXCEPT ![s] = SetItemR(r, opr[3], opr[4])]
    [] opr[1] = "augadd" -> [oo EXCEPT ![s] = AugAddR(r, opr[3], opr[4])]
    [] opr[1] = "iadd" -> [oo EXCEPT ![s] = IAddR(r, Opd(oo, opr[3], opr[4]))]
    [] opr[1] = "isub" -> [oo EXCEPT ![s] = ISubR(r, Opd(oo, opr[3], opr[4]))]
    [] opr[1] = "update" -> [oo EXCEPT ![s] = UpdateR(r, Opd(oo, opr[3], opr[4]))]
    [] opr[1] = "imul" -> [oo EXCEPT ![s] = IMulR(r, Opd(oo, opr[3], opr[4]))]
    [] opr[1] = "iadd_scalar" -> [oo EXCEPT ![s] = IAddScalarR(r, opr[3])]
    [] opr[1] = "imul_scalar" -> [oo EXCEPT ![s] = IMulScalarR(r, opr[3])]
    [] opr[1] = "isub_scalar" -> [oo EXCEPT ![s] = ISubScalarR(r, opr[3])]
    [] opr[1] = "idiv" -> [oo EXCEPT ![s] = IDivR(r, opr[3])]
    [] opr[1] = "ipow" -> [oo EXCEPT ![s] = IPowR(r, ItemsOf(r.ts), opr[3])]
    [] opr[1] = "clear" -> [oo EXCEPT ![s] = ClearR(r)]
    [] opr[1] = "refresh" -> [oo EXCEPT ![s] = RefreshR(r)]
    [] opr[1] = "copy" -> [oo EXCEPT ![opr[3]] = CopyR(r)]
    [] opr[1] = "setmap" -> [oo EXCEPT ![s] = SetMapR(r, opr[3])]
    [] opr[1] = "new" -> [oo EXCEPT ![s] = NewR(r.kind, opr[3])]
    [] opr[1] = "var" -> [oo EXCEPT ![s] = VarR(r.kind, opr[3])]
    \* a real constraint method: which terms it adds is free (Constraints.tla decides that); the counter,
    \* the generated names and the number of recorded constraints follow the log
    [] opr[1] = "addcons" -> [oo EXCEPT ![s] = [r EXCEPT !.gen = @ \cup (r.anc..(Steps[l].slots[s].anc - 1)), !.ncons = @ + 1]]
    [] opr[1] = "toenum" -> oo
    [] opr[1] = "bin" -> [oo EXCEPT ![opr[6]] = BinR(opr[3], r, Opd(oo, opr[4], opr[5]), opr[7])]
    [] opr[1] = "binscalar" -> [oo EXCEPT ![opr[5]] = BinScalarR(opr[3], r, opr[4], opr[6])]
    [] opr[1] = "neg" -> [oo EXCEPT ![opr[3]] = NegR(r)]
    [] opr[1] = "pow" -> [oo EXCEPT ![opr[4]] = PowR(r, opr[3])]
    [] opr[1] = "div" -> [oo EXCEPT ![opr[4]] = DivR(r, opr[3])]
    [] opr[1] \in {"ctor", "info"} -> [oo EXCEPT ![opr[3]] = CopyR(r)]
    [] OTHER -> oo
KnownOp(opr) == opr[1] \in {"setitem", "augadd", "iadd", "isub", "update", "imul", "iadd_scalar", "imul_scalar", "isub_scalar", "idiv", "ipow",
                            "clear", "refresh", "copy", "new", "var", "setmap", "addcons", "toenum", "bin", "binscalar", "neg", "pow", "div",
                            "value", "mulraise", "poke", "ctor", "info"}

\* ---- clauses ----
Clause(name, cond) == cond \/ (PrintT(<<"QVVIOL", name, tid, l - 1>>) /\ FALSE)
First == l = 1
TermsFree == St.op[1] = "addcons"
TermsMatchP == IF First THEN TRUE ELSE \A s \in Slots : (TermsFree /\ s = Target(St.op)) \/ PolyOf(pred[s].ts) = PolyOf(o[s].ts)
\* the result has the class of the model operand; for two models of different classes only the value is judged
TwoKinds == St.op[1] = "bin" /\ St.op[4] # 0 /\ prev[St.op[2]].kind # prev[St.op[4]].kind
KindMatchP == IF First THEN TRUE ELSE \A s \in Slots : (TwoKinds /\ s = Target(St.op)) \/ pred[s].kind = o[s].kind
ImplNoRaiseP == IF First THEN TRUE ELSE IF St.op[1] = "mulraise" THEN St.raised = "KeyError" ELSE St.raised = ""
\* value functions agree with direct evaluation of the stored polynomial (C05)
ImplValueP == IF First THEN TRUE ELSE
    (St.op[1] = "value" => LET ss == St.op[2] r == o[ss] IN
        \A q \in 1..Len(St.values) : St.values[q] = Eval(IsSpin(r.kind), PolyOf(r.ts), ToSet(St.op[3])))
\* create_from_info(get_info(M)) reproduces type, terms, name, mapping, ancilla count and constraints (C19)
ConsOf(sl) == [q \in 1..Len(sl.cons) |-> <<sl.cons[q][1], FromRaw(IsSpin(sl.kind), sl.cons[q][2]), sl.cons[q][3]>>]  \* relation, polynomial, class
ImplInfoSameP == IF First THEN TRUE ELSE
    (St.op[1] = "info" => LET a == Steps[l - 1].slots[St.op[2]] b == Steps[l - 1].slots[St.op[3]] IN
        /\ b.kind = a.kind /\ FromRaw(IsSpin(a.kind), b.ts) = FromRaw(IsSpin(a.kind), a.ts) /\ b.name = a.name
        /\ MapOf(b.map) = MapOf(a.map) /\ b.anc = a.anc /\ ConsOf(b) = ConsOf(a) /\ St.info_equal)
\* copy() / copy constructor keep terms, ancilla count and constraints
ImplCopySameP == IF First THEN TRUE ELSE
    (St.op[1] \in {"copy", "ctor"} => LET a == Steps[l - 1].slots[St.op[2]] b == Steps[l - 1].slots[St.op[3]] IN
        /\ b.kind = a.kind /\ b.anc = a.anc /\ ConsOf(b) = ConsOf(a))
ImplUpperBoundsP == IF First THEN TRUE ELSE \A s \in Slots : UpperBoundsR(o[s]) /\ St.slots[s].nvars >= Cardinality(TrueVars(o[s]))
RevInverse(sl) == LET m == MapOf(sl.map) rv == MapOf(sl.rev) IN
                  /\ DOMAIN rv = {m[x] : x \in DOMAIN m} /\ \A x \in DOMAIN m : rv[m[x]] = x
                  /\ Len(sl.map) = Cardinality(DOMAIN m) /\ Len(sl.rev) = Cardinality(DOMAIN rv)
ImplMappingBijectionP == IF First THEN TRUE ELSE
    /\ \A s \in Slots : IsLabelled(o[s].kind) => /\ MappingBijectionR(o[s]) /\ RevInverse(St.slots[s])
                                                 /\ St.slots[s].nvars = Cardinality(o[s].vars)
    \* after set_mapping(m) the object's mapping IS m
    /\ (St.op[1] = "setmap" => o[St.op[2]].map = pred[St.op[2]].map)
\* weaker than the bijection (which create_from_info of a STALE model does not restore): two labels never share an integer
ImplMappingInjectiveP == IF First THEN TRUE ELSE
    \A s \in Slots : IsLabelled(o[s].kind) => Cardinality({o[s].map[x] : x \in DOMAIN o[s].map}) = Cardinality(DOMAIN o[s].map)
\* Python equality of the two objects (both directions, and !=) says exactly whether they denote the same function - whatever
\* their histories, caches and classes
ImplEqualityP == IF First THEN TRUE ELSE
    LET same == FromRaw(IsSpin(o[1].kind), St.slots[1].ts) = FromRaw(IsSpin(o[2].kind), St.slots[2].ts)
    IN St.eq = <<same, same, ~same>>
RawCanon(sl) == /\ \A i \in 1..Len(sl.ts) : sl.ts[i][2] # 0 /\ Cardinality(ToSet(sl.ts[i][1])) = Len(sl.ts[i][1])
                /\ \A i, j \in 1..Len(sl.ts) : i # j => ToSet(sl.ts[i][1]) # ToSet(sl.ts[j][1])
ImplStoredCanonicalP == IF First THEN TRUE ELSE \A s \in Slots : RawCanon(St.slots[s])
ImplRefreshExactP == IF First THEN TRUE ELSE
    (St.op[1] = "refresh" => LET s == St.op[2] IN /\ ExactR(o[s]) /\ St.slots[s].nvars = Cardinality(TrueVars(o[s]))
                                                   /\ o[s].anc = prev[s].anc /\ o[s].ncons = prev[s].ncons)
ImplAncCoversP == IF First THEN TRUE ELSE \A s \in Slots : \A g \in pred[s].gen : g < o[s].anc
\* names created by a constraint method are new for this object, and every ancilla-named label that appears
\* was created by this call
ImplAncFreshP == IF First THEN TRUE ELSE
    (St.op[1] = "addcons" => LET s == St.op[2] created == prev[s].anc..(o[s].anc - 1) IN
                               /\ o[s].anc >= prev[s].anc
                               /\ created \cap prev[s].gen = {}
                               /\ ToSet(St.new_anc) \subseteq created)
ImplUnchangedOthersP == IF First THEN TRUE ELSE \A s \in Slots : s # Target(St.op) => NoGen(o[s]) = NoGen(prev[s])
\* enumerated form: labels of model variables come from the mapping, ancillas of a reduction are >= nvars
ImplEnumLabelsP == IF First THEN TRUE ELSE
    (St.op[1] = "toenum" /\ St.raised = "" =>
        LET s == St.op[2] r == o[s] out == FromRaw(IsSpin(r.kind), St.out)
            outB == FromRawB(St.out)
            n == St.slots[s].nvars
            img == {r.map[x] : x \in TrueVars(r) \cap DOMAIN r.map}
        IN /\ TrueVars(r) \subseteq DOMAIN r.map
           /\ \A x \in VarsOf(out) : x < n => x \in img
           /\ (~St.op[3] => out = Relabel(PolyOf(r.ts), r.map))
           \* a reduced boolean form: labels >= n are ancillas, and every assignment of the model's variables has an
           \* extension over them on which the form takes the model's value (so no label serves both purposes)
           \* (spin models: the reduced boolean form of to_qubo(); boolean 1 corresponds to spin -1)
           /\ (St.op[3] =>
                  \A X \in SUBSET TrueVars(r) : \E A \in SUBSET {z \in VarsOf(outB) : z >= n} :
                      EvalB(outB, {r.map[x] : x \in X} \cup A) = Eval(IsSpin(r.kind), PolyOf(r.ts), X))
           \* ancillas created by a reduction (hook H1): strictly above every reported variable, not a mapped label
           /\ \A z \in ToSet(St.cert_z) : z >= n /\ z \notin {r.map[x] : x \in DOMAIN r.map})
\* a constraint method records a polynomial of its own, getters and info dictionaries are independent objects: the marker
\* label the harness writes into the ARGUMENT after the call / into getter results / into info dictionaries never shows
\* up in a model's terms, mapping or recorded constraints (`poked` is that observation, made on the projection)
ImplNoAliasP == IF First THEN TRUE ELSE \A ss \in Slots : ~St.slots[ss].poked
AllOK == ImplEqualityP /\ ImplMappingInjectiveP /\ ImplNoAliasP /\ ImplValueP /\ ImplInfoSameP /\ ImplCopySameP /\ TermsMatchP /\ KindMatchP /\ ImplNoRaiseP /\ ImplUpperBoundsP /\ ImplMappingBijectionP /\ ImplStoredCanonicalP
         /\ ImplRefreshExactP /\ ImplAncCoversP /\ ImplAncFreshP /\ ImplUnchangedOthersP /\ ImplEnumLabelsP
ImplNoAlias == Clause("ImplNoAlias", ImplNoAliasP)
ImplMappingInjective == Clause("ImplMappingInjective", ImplMappingInjectiveP)
ImplEquality == Clause("ImplEquality", ImplEqualityP)
ImplValue == Clause("ImplValue", ImplValueP)
ImplInfoSame == Clause("ImplInfoSame", ImplInfoSameP)
ImplCopySame == Clause("ImplCopySame", ImplCopySameP)
TermsMatch == Clause("TermsMatch", TermsMatchP)
KindMatch == Clause("KindMatch", KindMatchP)
ImplNoRaise == Clause("ImplNoRaise", ImplNoRaiseP)
ImplUpperBounds == Clause("ImplUpperBounds", ImplUpperBoundsP)
ImplMappingBijection == Clause("ImplMappingBijection", ImplMappingBijectionP)
ImplStoredCanonical == Clause("ImplStoredCanonical", ImplStoredCanonicalP)
ImplRefreshExact == Clause("ImplRefreshExact", ImplRefreshExactP)
ImplAncCovers == Clause("ImplAncCovers", ImplAncCoversP)
ImplAncFresh == Clause("ImplAncFresh", ImplAncFreshP)
ImplUnchangedOthers == Clause("ImplUnchangedOthers", ImplUnchangedOthersP)
ImplEnumLabels == Clause("ImplEnumLabels", ImplEnumLabelsP)

TraceInit == /\ tid \in 1..Len(Traces) /\ l = 1
             /\ o = [s \in Slots |-> FreshL(Traces[tid].kinds[s], Traces[tid].names[s])] /\ op = <<"init">>
             /\ pred = o /\ prev = o
TraceNext == /\ l <= Len(Steps) /\ (AllOK = TRUE) /\ (KnownOp(Steps[l].op) = TRUE)
             /\ LET p == Apply(Steps[l].op, o) IN
                /\ pred' = p
                /\ o' = [s \in Slots |-> [FromLog(Steps[l].slots[s]) EXCEPT !.gen = p[s].gen]]
             /\ prev' = o
             /\ op' = Steps[l].op
             /\ l' = l + 1 /\ tid' = tid
TraceSpec == TraceInit /\ [][TraceNext]_tvars
NotStuck == (l > Len(Steps)) \/ ~AllOK \/ (ENABLED TraceNext) \/ (PrintT(<<"QVVIOL", "NotStuck", tid, l>>) /\ FALSE)
CacheSame(a, b) == a.vars = b.vars /\ a.deg = b.deg /\ DOMAIN a.map = DOMAIN b.map /\ a.anc = b.anc /\ a.ncons = b.ncons
Drift == IF First \/ ~AllOK THEN TRUE ELSE
           (\A s \in Slots : (TermsFree /\ s = Target(St.op)) \/ CacheSame(pred[s], o[s])) \/ PrintT(<<"QVINFO", "drift-cache", tid, l - 1>>)
=============================================================================
