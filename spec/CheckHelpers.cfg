SPECIFICATION Spec
INVARIANT NoRaise
INVARIANT ExpectedRaise
INVARIANT BoolToSpin
INVARIANT SpinToBool
INVARIANT DecToBool
INVARIANT BoolToDec
INVARIANT NumBits
INVARIANT IsSpin
INVARIANT IntVar
INVARIANT Props
INVARIANT Schedule
INVARIANT AROrder
CHECK_DEADLOCK FALSE
