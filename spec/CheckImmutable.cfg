SPECIFICATION Spec
INVARIANT ArgUnchanged
INVARIANT NoRaise
CHECK_DEADLOCK FALSE
