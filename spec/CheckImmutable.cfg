SPECIFICATION Spec
INVARIANT ArgUnchanged
INVARIANT NoRaise
INVARIANT ResultIndependent
CHECK_DEADLOCK FALSE
