----------------------------- MODULE CheckReduce -----------------------------
(***************************************************************************)
(* C01, code level: the contract of degree reduction evaluated by TLC on   *)
(* the forms the REAL to_qubo / to_quso / to_pubo(deg) / to_puso(deg)      *)
(* returned, for every assignment of the form's variables (model variables *)
(* and ancillas).  Record: source model M (raw terms over label names),    *)
(* its mapping, n = number of variables, the returned form D (raw terms    *)
(* over integers), target kind, requested degree, penalty mode, and the    *)
(* table of M.convert_solution(s) for every s.                             *)
(***************************************************************************)
EXTENDS Poly, Json, IOUtils
Recs == ndJsonDeserialize(IOEnv.QV_RECS)
NR == Len(Recs)
VARIABLES c, ph, s, k      \* k: polynomials and mapping of the chosen record, canonicalised once and carried in the state
vars == <<c, ph, s, k>>
MapOfRec(r) == LET ps == r.map IN [x \in {ps[q][1] : q \in 1..Len(ps)} |-> ps[CHOOSE q \in 1..Len(ps) : ps[q][1] = x][2]]
Cache(r) == [d |-> FromRaw(r.spin_tgt, r.D), m |-> FromRaw(r.spin_src, r.M), map |-> MapOfRec(r)]
NoCache == [d |-> Zero, m |-> Zero, map |-> << >>]
R == Recs[c]
Dp == k.d
Mp == k.m
MapOf(i) == k.map
DVarsNow == IF R.raised = "" THEN VarsOf(Dp) \cup (0..(R.n - 1)) ELSE {}
Init == c = 0 /\ ph = 0 /\ s = {} /\ k = NoCache
Next == \/ ph = 0 /\ ph' = 1 /\ c' \in 1..16 /\ UNCHANGED <<s, k>>
        \/ ph = 1 /\ ph' = 2 /\ s' = s /\ \E i \in {j \in 1..NR : j % 16 = c % 16} : c' = i /\ k' = Cache(Recs[i])
        \/ ph = 2 /\ ph' = 3 /\ c' = c /\ k' = k /\ s' \in SUBSET DVarsNow
Spec == Init /\ [][Next]_vars
Clause(name, cond) == cond \/ (PrintT(<<"QVVIOL", name, c, R.id>>) /\ FALSE)
Case == ph = 2
Point == ph = 3
Good == R.raised = ""
Anc == {z \in VarsOf(Dp) : z >= R.n}
\* the assignment of M's labels that s denotes (labels whose mapped integer is set)
Conv(ss) == {lab \in DOMAIN MapOf(c) : MapOf(c)[lab] \in ss}
EvalD(ss) == Eval(R.spin_tgt, Dp, ss)
EvalM(xs) == Eval(R.spin_src, Mp, xs)
\* boolean-form coefficients of M decide whether the chosen penalty dominates the reduced terms
Mbool == IF R.spin_src THEN ToBool(Mp) ELSE Mp
LamOK == R.lam_mode \in {"default", "abs", "absplus"} \/ \A m \in DOMAIN Mbool : Cardinality(m) > R.deg => R.lam_val >= Abs(Mbool[m])

NoRaise == Clause("NoRaise", ~Case \/ Good)
ArgUnchanged == Clause("ArgUnchanged", ~Case \/ R.unchanged)
DegreeOK == Clause("DegreeOK", ~(Case /\ Good) \/ Degree(Dp) <= R.deg)
LabelsOK == Clause("LabelsOK", ~(Case /\ Good) \/
    /\ \A z \in VarsOf(Dp) : z >= 0
    /\ \A z \in VarsOf(Dp) : z < R.n => z \in {MapOf(c)[l] : l \in VarsOf(Mp)}
    /\ {MapOf(c)[l] : l \in DOMAIN MapOf(c)} = 0..(R.n - 1) /\ Cardinality(DOMAIN MapOf(c)) = R.n)
TypeOK == Clause("TypeOK", ~(Case /\ Good) \/ R.dtype = R.expect_type)
\* every assignment of D: D(s) >= M(convert(s)) when the penalty dominates
NeverUndercut == Clause("NeverUndercut", ~(Point /\ Good) \/ ~LamOK \/ EvalD(s) >= R.scale * EvalM(Conv(s)))
\* every assignment x of M has an extension over the ancillas with D = M (whatever the penalty)
ExactOnSomeExtension == Clause("ExactOnSomeExtension", ~(Point /\ Good) \/ s \cap Anc # {} \/
    \E a \in SUBSET Anc : EvalD(s \cup a) = R.scale * EvalM(Conv(s)))
\* convert_solution(s) is the restriction of s to the model's labels, in M's own domain
\* the table lists the assignments in the order of itertools.product over R.dvars (first variable most significant)
PosOf(v) == CHOOSE p \in 1..Len(R.dvars) : R.dvars[p] = v
IdxOf(ss) == 1 + SumOver(ss, LAMBDA v : Pow2(Len(R.dvars) - PosOf(v)))
ConvOf(ss) == ToSet(R.conv[IdxOf(ss)][2])
ConvKeyOK(ss) == ToSet(R.conv[IdxOf(ss)][1]) = ss
ConvertOK == Clause("ConvertOK", ~(Point /\ Good /\ R.conv_complete) \/ (ConvKeyOK(s) /\ ConvOf(s) = Conv(s)))
=============================================================================
