----------------------------- MODULE CheckReduce -----------------------------
(***************************************************************************)
(* C01, code level: the contract of degree reduction evaluated by TLC on   *)
(* the forms the REAL to_qubo / to_quso / to_pubo(deg) / to_puso(deg)      *)
(* returned, for every assignment of the form's variables (model variables *)
(* and ancillas).  Record: source model M (raw terms over label names),    *)
(* its mapping, n = number of variables, the returned form D (raw terms    *)
(* over integers), target kind, requested degree, penalty mode, and the    *)
(* table of M.convert_solution(s) for every s.                             *)
(***************************************************************************)
EXTENDS Poly, Json, IOUtils
Recs == ndJsonDeserialize(IOEnv.QV_RECS)
NR == Len(Recs)
VARIABLES c, ph, s
vars == <<c, ph, s>>
DOf == TLCEval([i \in 1..NR |-> FromRaw(Recs[i].spin_tgt, Recs[i].D)])
MOf == TLCEval([i \in 1..NR |-> FromRaw(Recs[i].spin_src, Recs[i].M)])
MapOf(i) == LET ps == Recs[i].map IN [x \in {ps[q][1] : q \in 1..Len(ps)} |-> ps[CHOOSE q \in 1..Len(ps) : ps[q][1] = x][2]]
DVars(i) == IF Recs[i].raised = "" THEN VarsOf(DOf[i]) \cup (0..(Recs[i].n - 1)) ELSE {}
Init == c = 0 /\ ph = 0 /\ s = {}
Next == \/ ph = 0 /\ ph' = 1 /\ c' \in 1..16 /\ s' = s
        \/ ph = 1 /\ ph' = 2 /\ c' \in {i \in 1..NR : i % 16 = c % 16} /\ s' = s
        \/ ph = 2 /\ ph' = 3 /\ c' = c /\ s' \in SUBSET DVars(c)
Spec == Init /\ [][Next]_vars
R == Recs[c]
Dp == DOf[c]
Mp == MOf[c]
Clause(name, cond) == cond \/ (PrintT(<<"QVVIOL", name, c, R.id>>) /\ FALSE)
Case == ph = 2
Point == ph = 3
Good == R.raised = ""
Anc == {z \in VarsOf(Dp) : z >= R.n}
\* the assignment of M's labels that s denotes (labels whose mapped integer is set)
Conv(ss) == {lab \in DOMAIN MapOf(c) : MapOf(c)[lab] \in ss}
EvalD(ss) == Eval(R.spin_tgt, Dp, ss)
EvalM(xs) == Eval(R.spin_src, Mp, xs)
\* boolean-form coefficients of M decide whether the chosen penalty dominates the reduced terms
Mbool == IF R.spin_src THEN ToBool(Mp) ELSE Mp
LamOK == R.lam_mode \in {"default", "abs", "absplus"} \/ \A m \in DOMAIN Mbool : Cardinality(m) > R.deg => R.lam_val >= Abs(Mbool[m])

NoRaise == Clause("NoRaise", ~Case \/ Good)
ArgUnchanged == Clause("ArgUnchanged", ~Case \/ R.unchanged)
DegreeOK == Clause("DegreeOK", ~(Case /\ Good) \/ Degree(Dp) <= R.deg)
LabelsOK == Clause("LabelsOK", ~(Case /\ Good) \/
    /\ \A z \in VarsOf(Dp) : z >= 0
    /\ \A z \in VarsOf(Dp) : z < R.n => z \in {MapOf(c)[l] : l \in VarsOf(Mp)}
    /\ {MapOf(c)[l] : l \in DOMAIN MapOf(c)} = 0..(R.n - 1) /\ Cardinality(DOMAIN MapOf(c)) = R.n)
TypeOK == Clause("TypeOK", ~(Case /\ Good) \/ R.dtype = R.expect_type)
\* every assignment of D: D(s) >= M(convert(s)) when the penalty dominates
NeverUndercut == Clause("NeverUndercut", ~(Point /\ Good) \/ ~LamOK \/ EvalD(s) >= R.scale * EvalM(Conv(s)))
\* every assignment x of M has an extension over the ancillas with D = M (whatever the penalty)
ExactOnSomeExtension == Clause("ExactOnSomeExtension", ~(Point /\ Good) \/ s \cap Anc # {} \/
    \E a \in SUBSET Anc : EvalD(s \cup a) = R.scale * EvalM(Conv(s)))
\* convert_solution(s) is the restriction of s to the model's labels, in M's own domain
\* the table lists the assignments in the order of itertools.product over R.dvars (first variable most significant)
PosOf(v) == CHOOSE p \in 1..Len(R.dvars) : R.dvars[p] = v
IdxOf(ss) == 1 + SumOver(ss, LAMBDA v : Pow2(Len(R.dvars) - PosOf(v)))
ConvOf(ss) == ToSet(R.conv[IdxOf(ss)][2])
ConvKeyOK(ss) == ToSet(R.conv[IdxOf(ss)][1]) = ss
ConvertOK == Clause("ConvertOK", ~(Point /\ Good /\ R.conv_complete) \/ (ConvKeyOK(s) /\ ConvOf(s) = Conv(s)))
=============================================================================
