SPECIFICATION Spec
CONSTANTS
  Mode = "cmp"
  CoefSel = "small"
  Lams = {2}
  BoundKinds = {"none"}
  MaxAnc = 7
  MaxArity = 1
INVARIANT PenaltyExactInv
INVARIANT AncFresh
INVARIANT UnsatSound
INVARIANT LamLinear
CHECK_DEADLOCK FALSE
