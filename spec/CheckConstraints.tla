-------------------------- MODULE CheckConstraints --------------------------
(***************************************************************************)
(* C02 / C03 / C06, code level: the contract of Constraints.tla evaluated  *)
(* by TLC on what the REAL PCBO / PCSO constraint methods produced.        *)
(* One record per constraint call (calls on the same model form a          *)
(* scenario): the model's raw terms before and after, the constrained      *)
(* polynomial, relation or gate, weight, log_trick, bounds, the ancilla    *)
(* counter before / after, warnings, the recorded constraints and the      *)
(* is_solution_valid table over all assignments of the problem variables.  *)
(* States: (record) and (record, assignment x of its problem variables);   *)
(* the quantifier over ancilla assignments is inside PenaltyAt.            *)
(***************************************************************************)
EXTENDS Constraints, Json, IOUtils
Recs == ndJsonDeserialize(IOEnv.QV_RECS)
NR == Len(Recs)
VARIABLES c, ph, x, k      \* k: polynomials of the chosen record's scenario, canonicalised once and carried in the state
vars == <<c, ph, x, k>>
R == Recs[c]
FDiff(r) == Sub(FromRaw(r.spin, r.after), FromRaw(r.spin, r.before))
\* the records of the same scenario (same model) as record i
ScenOf(i) == {j \in 1..NR : Recs[j].scen = Recs[i].scen}
Cache(i) == [f |-> [j \in ScenOf(i) |-> FDiff(Recs[j])],
             p |-> [j \in ScenOf(i) |-> FromRaw(Recs[j].spin, Recs[j].P)],
             ops |-> [j \in ScenOf(i) |-> [q \in 1..Len(Recs[j].ops) |-> FromRawB(Recs[j].ops[q])]],
             ga |-> [j \in ScenOf(i) |-> FromRawB(Recs[j].ga)]]
NoCache == [f |-> << >>, p |-> << >>, ops |-> << >>, ga |-> << >>]
Init == c = 0 /\ ph = 0 /\ x = {} /\ k = NoCache
Next == \/ ph = 0 /\ ph' = 1 /\ c' \in 1..16 /\ UNCHANGED <<x, k>>
        \/ ph = 1 /\ ph' = 2 /\ x' = x /\ \E i \in {j \in 1..NR : j % 16 = c % 16} : c' = i /\ k' = Cache(i)
        \/ ph = 2 /\ ph' = 3 /\ c' = c /\ k' = k /\ x' \in SUBSET ToSet(Recs[c].X)
Spec == Init /\ [][Next]_vars
FOf == k.f
POf == k.p
OpsOf == k.ops
F == FOf[c]
XS == ToSet(R.X)
AncOf(i) == VarsOf(FOf[i]) \ ToSet(Recs[i].X)
Clause(name, cond) == cond \/ (PrintT(<<"QVVIOL", name, c, R.id>>) /\ FALSE)
Case == ph = 2
\* the truth-table clauses enumerate all ancilla assignments: only for penalties with at most MaxA ancillas
MaxA == 9
Point == ph = 3 /\ Cardinality(AncOf(c)) <= MaxA
IsCmp == R.mode = "cmp"
IsGate == R.mode = "gate"
\* ---------------- per record ----------------
NoRaise == Clause("NoRaise", ~Case \/ R.raised = "")
Good == R.raised = ""
ArgUnchanged == Clause("ArgUnchanged", ~Case \/ R.unchanged)
\* every ancilla of the penalty is a new name: not a problem label, not present in the model before, and (scenario)
\* not an ancilla of an earlier constraint on the same model
AncillaNamesFresh == Clause("AncillaNamesFresh", ~(Case /\ Good) \/
    /\ AncOf(c) \subseteq ToSet(R.anc_labels_after) \ ToSet(R.anc_labels_before)
    /\ \A i \in ScenOf(c) : (i # c /\ Recs[i].raised = "") => AncOf(i) \cap AncOf(c) = {})
\* num_ancillas covers every ancilla present (names __a<k> have k < num_ancillas; the indices are parsed by the harness)
NumAncillasCovers == Clause("NumAncillasCovers", ~(Case /\ Good) \/
    (R.anc_after >= R.anc_before /\ \A ai \in ToSet(R.anc_indices_after) : ai < R.anc_after))
\* the constraint is recorded under its relation, as the polynomial that was passed
ConstraintRecorded == Clause("ConstraintRecorded", ~(Case /\ Good /\ IsCmp) \/
    \E q \in 1..Len(R.cons) : R.cons[q][1] = R.rel /\ FromRaw(R.spin, R.cons[q][2]) = POf[c])
GateNoAncilla == Clause("GateNoAncilla", ~(Case /\ Good /\ IsGate) \/ (VarsOf(F) \subseteq XS /\ R.anc_after = R.anc_before))
\* ---------------- per record and assignment ----------------
A == AncOf(c)
Vals == {Eval(R.spin, F, x \cup a) : a \in SUBSET A}
CmpHolds == Holds(R.rel, Eval(R.spin, POf[c], x))
GHolds == GateHolds(R.gate, R.geq, k.ga[c], OpsOf[c], x)
HoldsHere == IF IsCmp THEN CmpHolds ELSE GHolds
NonNeg == Clause("NonNeg", ~(Point /\ Good) \/ \A v \in Vals : v >= 0)
ZeroWhenHolds == Clause("ZeroWhenHolds", ~(Point /\ Good) \/ R.warned_unsat \/ (HoldsHere => 0 \in Vals))
LamWhenViolated == Clause("LamWhenViolated", ~(Point /\ Good) \/ R.warned_unsat \/ (~HoldsHere => \A v \in Vals : v >= R.lam))
\* is_solution_valid(x) is true exactly when every constraint added to this model so far holds at x
\* (judged from the constraints that were PASSED, not from what the library recorded)
HoldsRec(i) == LET r == Recs[i] IN
               IF r.mode = "cmp" THEN Holds(r.rel, Eval(r.spin, POf[i], x))
               ELSE GateHolds(r.gate, r.geq, k.ga[i], OpsOf[i], x)
ValidAt == LET q == CHOOSE q \in 1..Len(R.valid) : ToSet(R.valid[q][1]) = x IN R.valid[q][2]
ValidIffHolds == Clause("ValidIffHolds", ~(Point /\ Good /\ R.valid_complete) \/
    (ValidAt = \A i \in ScenOf(c) : (Recs[i].step <= R.step /\ Recs[i].raised = "") => HoldsRec(i)))
=============================================================================
