SPECIFICATION Spec
INVARIANT NoRaise
INVARIANT ArgUnchanged
INVARIANT SecondCallSame
INVARIANT NoneIffNoValid
INVARIANT SolutionsOK
INVARIANT NoDuplicates
INVARIANT SingleWhenNotAll
INVARIANT ConstantModel
INVARIANT IsMinimum
INVARIANT AllMinimisers
CHECK_DEADLOCK FALSE
