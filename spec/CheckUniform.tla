---------------------------- MODULE CheckUniform ----------------------------
(***************************************************************************)
(* C12, distribution-free sanity of the kernels' random choices: for every *)
(* number of spins N used with random visiting, the visited indices logged *)
(* by hook H2 must cover 0..N-1 and each frequency must lie within a       *)
(* Hoeffding band (failure probability 1e-12 per count for a uniform       *)
(* source); likewise the logged variates fall into 8 equal buckets of      *)
(* [0,1) within the band.  counts/total/band are measured by the harness   *)
(* from the trace; the comparison is done here.                            *)
(***************************************************************************)
EXTENDS Integers, Sequences, Json, IOUtils, TLC
Recs == ndJsonDeserialize(IOEnv.QV_RECS)
VARIABLES c
Init == c = 0
Next == c = 0 /\ c' \in 1..Len(Recs)
Spec == Init /\ [][Next]_c
R == Recs[c]
Abs(v) == IF v < 0 THEN -v ELSE v
\* |count - total/k| <= band   <=>   |count*k - total| <= band*k
Within(cnt, total, k, band) == Abs(cnt * k - total) <= band * k
Uniform == c = 0 \/ (\A i \in 1..Len(R.counts) : R.counts[i] > 0 /\ Within(R.counts[i], R.total, Len(R.counts), R.band))
                 \/ (PrintT(<<"QVVIOL", "Uniform", c, R.what>>) /\ FALSE)
=============================================================================
