SPECIFICATION Spec
INVARIANT NoRaise
INVARIANT ArgUnchanged
INVARIANT ResultType
INVARIANT BoolToSpin
INVARIANT SpinToBool
INVARIANT Enumerated
INVARIANT ConvertSolution
INVARIANT ExportSame
INVARIANT MatrixToQubo
INVARIANT SatTruth
INVARIANT EncloseAt
INVARIANT EncloseAt2
INVARIANT ConstantExact
INVARIANT TempRange
INVARIANT SubValueSame
INVARIANT SubGraphSame
INVARIANT Normalized
INVARIANT SubSymbolic
CHECK_DEADLOCK FALSE
