SPECIFICATION TraceSpec
CONSTANTS
  Vals = {1, 2, 3}
  MaxLen = 6
  MaxId = 100
  Fixed = TRUE
INVARIANT ItemsMatch
INVARIANT ImplBestIsMin
INVARIANT ImplNoRaise
INVARIANT ImplType
INVARIANT SortedOK
INVARIANT NotStuck
INVARIANT Drift
CHECK_DEADLOCK FALSE
