--------------------------- MODULE CheckImmutable ---------------------------
(***************************************************************************)
(* C19, argument immutability: every library function that takes a model,  *)
(* dict or constraint polynomial is called by the harness with a deep      *)
(* snapshot taken before; the observation `the argument still equals its   *)
(* snapshot and has kept its type` is recorded per (function, argument     *)
(* kind, case) and asserted here, together with `no exception` and with    *)
(* the same observation made again after the harness wrote into the        *)
(* call's result.                                                          *)
(***************************************************************************)
EXTENDS Integers, Sequences, Json, IOUtils, TLC
Recs == ndJsonDeserialize(IOEnv.QV_RECS)
VARIABLES c
Init == c = 0
Next == c = 0 /\ c' \in 1..Len(Recs)
Spec == Init /\ [][Next]_c
R == Recs[c]
ArgUnchanged == c = 0 \/ R.unchanged \/ (PrintT(<<"QVVIOL", "ArgUnchanged", c, R.fn>>) /\ FALSE)
\* writing into the RESULT of the call afterwards does not show in any argument (no aliasing of inputs by results)
ResultIndependent == c = 0 \/ R.independent \/ (PrintT(<<"QVVIOL", "ResultIndependent", c, R.fn>>) /\ FALSE)
NoRaise == c = 0 \/ R.raised = "" \/ (PrintT(<<"QVVIOL", "NoRaise", c, R.fn>>) /\ FALSE)
=============================================================================
