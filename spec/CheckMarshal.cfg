SPECIFICATION CSpec
CONSTANTS
  MaxN = 1
  MaxTerms = 1
  MaxAnneals = 1
  GuardIndex0 = TRUE
INVARIANT RealInBounds
INVARIANT RealPre
INVARIANT NoSanitizerReport
INVARIANT OrderIndependent
CHECK_DEADLOCK FALSE
