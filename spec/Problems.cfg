SPECIFICATION Spec
INVARIANT NoRaise
INVARIANT ArgUnchanged
INVARIANT ValidIffFeasible
INVARIANT DecodeOK
INVARIANT NumVars
INVARIANT BruteForceOK
INVARIANT BruteForceAllOK
INVARIANT GroundAttained
INVARIANT NothingBelowOptimum
INVARIANT GroundStatesDecode
CHECK_DEADLOCK FALSE
