SPECIFICATION Spec
CONSTANTS
  Labels = {"a", "b"}
  Vals <- ValsM101
  MaxKeyLen = 3
  Kind1 = "PUBO"
  Kind2 = "PUBO"
  FixedReg = FALSE
  FixedMul = TRUE
  MaxTerms = 4
  Depth = 3
INVARIANT UpperBounds
INVARIANT MappingBijection
INVARIANT StoredCanonical
INVARIANT AncCovers
PROPERTY RefreshExact
PROPERTY AncNeverReused
CONSTRAINT DepthBound
VIEW View
CHECK_DEADLOCK FALSE
