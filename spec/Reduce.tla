------------------------------- MODULE Reduce -------------------------------
(***************************************************************************)
(* PUBO._reduce_degree (qubovert/_pubo.py) as a step machine.              *)
(* M: the source polynomial over labels 0..N-1 (chosen in Init, constant), *)
(* todo: terms not yet processed, cur: the term being reduced, red: pair   *)
(* -> ancilla already introduced, nextAnc (starts at N), D: the output     *)
(* built so far.  Substitute replaces a pair (x,y) of the current key by   *)
(* its ancilla z (re-used or fresh) and adds lam(v) * (3z + xy - 2z(x+y)); *)
(* Emit adds the shortened term.  The choice of the pair is                *)
(* nondeterministic: a superset of the code's "already used, else hinted,  *)
(* else most frequent" heuristic, so the invariants hold for every         *)
(* heuristic.  OncePerPair = TRUE is a negative configuration (penalty     *)
(* added only the first time a pair is used).                              *)
(* Invariants hold at EVERY step (they are inductive; ReduceLocal.tla is   *)
(* the local lemma), which is what lets ReduceTrace.tla validate           *)
(* certificates of models of any size step by step.                        *)
(***************************************************************************)
EXTENDS Poly
CONSTANTS N, Deg, CoefSel, MaxTerms, LamMode, OncePerPair
Vars == 0..(N - 1)
Coefs == IF CoefSel = "small" THEN {-2, 1} ELSE {-2, -1, 1, 2}
HighMons == {m \in SUBSET Vars : Cardinality(m) > Deg}
LowMons == {m \in SUBSET Vars : Cardinality(m) <= Deg}
VARIABLES M, todo, cur, red, nextAnc, D, pc
vars == <<M, todo, cur, red, nextAnc, D, pc>>
NoCur == [key |-> {}, v |-> 0]
Lam(v) == CASE LamMode = "default" -> 1 + Abs(v)
            [] LamMode = "abs" -> Abs(v)
            [] LamMode = "const" -> 2            \* = max |coefficient| of the universe
            [] LamMode = "one" -> 1             \* too small in general: Exact must still hold
Gadget(z, x, y) == Add(Add(Mono({z}, 3), Mono({x, y}, 1)), Add(Mono({z, x}, -2), Mono({z, y}, -2)))
Init == /\ \E S \in SUBSET HighMons : /\ Cardinality(S) \in 1..MaxTerms
                                      /\ \E f \in [S -> Coefs] : \E low \in {Zero, Mono({0}, 1), Mono({0, 1}, -2)} :
                                           M = Add(f, low)
        /\ todo = M /\ cur = NoCur /\ red = << >> /\ nextAnc = N /\ D = Zero /\ pc = "pick"
PickTerm == /\ pc = "pick" /\ DOMAIN todo # {}
            /\ \E m \in DOMAIN todo : /\ cur' = [key |-> m, v |-> todo[m]]
                                      /\ todo' = [k \in DOMAIN todo \ {m} |-> todo[k]]
            /\ pc' = "reduce" /\ UNCHANGED <<M, red, nextAnc, D>>
Substitute == /\ pc = "reduce" /\ Cardinality(cur.key) > Deg
              /\ \E x, y \in cur.key :
                   /\ x < y
                   /\ IF <<x, y>> \in DOMAIN red
                      THEN LET z == red[<<x, y>>] IN
                           /\ D' = IF OncePerPair THEN D ELSE Add(D, Scale(Lam(cur.v), Gadget(z, x, y)))
                           /\ cur' = [cur EXCEPT !.key = (cur.key \ {x, y}) \cup {z}]
                           /\ UNCHANGED <<red, nextAnc>>
                      ELSE LET z == nextAnc IN
                           /\ D' = Add(D, Scale(Lam(cur.v), Gadget(z, x, y)))
                           /\ cur' = [cur EXCEPT !.key = (cur.key \ {x, y}) \cup {z}]
                           /\ red' = [p \in DOMAIN red \cup {<<x, y>>} |-> IF p = <<x, y>> THEN z ELSE red[p]]
                           /\ nextAnc' = nextAnc + 1
              /\ UNCHANGED <<M, todo, pc>>
Emit == /\ pc = "reduce" /\ Cardinality(cur.key) <= Deg
        /\ D' = Add(D, Mono(cur.key, cur.v))
        /\ cur' = NoCur
        /\ pc' = IF DOMAIN todo = {} THEN "done" ELSE "pick"
        /\ UNCHANGED <<M, todo, red, nextAnc>>
Next == PickTerm \/ Substitute \/ Emit
Spec == Init /\ [][Next]_vars
Pending == Add(Add(D, todo), Mono(cur.key, cur.v))
AllV == 0..(nextAnc - 1)
RECURSIVE Consistent(_, _)
\* extend x (the model variables that are 1) by the ancillas, each set to the AND of its pair, in creation order
Consistent(ones, z) == IF z >= nextAnc THEN ones
                       ELSE LET p == CHOOSE q \in DOMAIN red : red[q] = z
                            IN Consistent(IF p[1] \in ones /\ p[2] \in ones THEN ones \cup {z} ELSE ones, z + 1)
Exact == \A x \in SUBSET Vars : EvalB(Pending, Consistent(x, N)) = EvalB(M, x)
NeverUndercut == LamMode = "one" \/ \A s \in SUBSET AllV : EvalB(Pending, s) >= EvalB(M, s \cap Vars)
DegOK == pc = "done" => \A m \in DOMAIN D : Cardinality(m) <= Deg
LabelsOK == pc = "done" => VarsOf(D) \subseteq AllV /\ \A z \in VarsOf(D) : z >= N => \E q \in DOMAIN red : red[q] = z
\* consequences stated in C01
SameMinimum == pc = "done" /\ LamMode # "one" => Min({EvalB(D, s) : s \in SUBSET AllV}) = MinB(M)
=============================================================================
