SPECIFICATION Spec
INVARIANT NoRaise
INVARIANT ArgUnchanged
INVARIANT NothingBelowConstrainedOpt
INVARIANT MinimisersConvert
INVARIANT OptimumAttained
INVARIANT ConvertOK
INVARIANT BruteForceOK
INVARIANT RemoveAncillaOK
CHECK_DEADLOCK FALSE
