SPECIFICATION Spec
CONSTANTS
  MaxN = 3
  MaxTerms = 3
  MaxAnneals = 2
  GuardIndex0 = FALSE
INVARIANT AllInBounds
INVARIANT FrontEndPre
CHECK_DEADLOCK FALSE
