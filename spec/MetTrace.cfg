SPECIFICATION Spec
INVARIANT Report
INVARIANT MarshalOK
INVARIANT InitialStateUsed
INVARIANT VisitOrder
INVARIANT DeltaExact
INVARIANT AcceptRule
INVARIANT FinalState
INVARIANT ApiMatchesKernel
INVARIANT WholeCall
INVARIANT NoRaise
INVARIANT Representable
CHECK_DEADLOCK FALSE
