SPECIFICATION Spec
INVARIANT NoRaise
INVARIANT ArgUnchanged
INVARIANT DegreeOK
INVARIANT LabelsOK
INVARIANT TypeOK
INVARIANT NeverUndercut
INVARIANT ExactOnSomeExtension
INVARIANT ConvertOK
CHECK_DEADLOCK FALSE
