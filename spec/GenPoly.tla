------------------------------- MODULE GenPoly -------------------------------
(***************************************************************************)
(* Input universes defined in the specification and EMITTED by TLC         *)
(* (constant mode): every multilinear polynomial over a small label set    *)
(* with coefficients from a small set, as raw term lists.  The checks of   *)
(* the pure functions (C04, C09, C15, C18) run the real functions on the   *)
(* whole universe, so that tier is an exhaustive enumeration of a finite   *)
(* space described here, not a sample.                                     *)
(*   QV_GEN = "2s": 2 labels, coefficients {-1, 1, 2}        (256)         *)
(*            "2f": 2 labels, coefficients {-2, -1, 1, 2}    (625)         *)
(*            "3" : 3 labels, coefficients {-1, 1}           (6561)        *)
(*            "3t": 3 labels, coefficients {-1, 1}, at most two terms (129)*)
(*            "3q": 3 labels, coefficients {-1, 1}, at most three terms of *)
(*                  degree <= 2                                (379)       *)
(***************************************************************************)
EXTENDS Poly, Json, IOUtils
Which == IOEnv.QV_GEN
Labels == IF Which \in {"3", "3t", "3q"} THEN {"L0", "L1", "L2"} ELSE {"L0", "L1"}
Coefs == IF Which = "2s" THEN {-1, 1, 2} ELSE IF Which = "2f" THEN {-2, -1, 1, 2} ELSE {-1, 1}
Monos == IF Which = "3q" THEN {m \in SUBSET Labels : Cardinality(m) <= 2} ELSE SUBSET Labels
Polys == UNION {[S -> Coefs] : S \in {T \in SUBSET Monos : (Which = "3t" => Cardinality(T) <= 2) /\ (Which = "3q" => Cardinality(T) <= 3)}}
Raw(p) == SetToSeq({<<SetToSeq(m), p[m]>> : m \in DOMAIN p})
Universe == SetToSeq({Raw(p) : p \in Polys})
ASSUME JsonSerialize(IOEnv.QV_GEN_OUT, [labels |-> SetToSeq(Labels), coefs |-> SetToSeq(Coefs), size |-> Len(Universe), polys |-> Universe])
ASSUME PrintT(<<"QVINFO", "universe", Which, Len(Universe)>>)
=============================================================================
