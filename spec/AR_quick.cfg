SPECIFICATION Spec
CONSTANTS
  Vals = {1, 2}
  MaxLen = 2
  MaxId = 3
  Fixed = TRUE
INVARIANT BestIsMin
INVARIANT NoRaise
INVARIANT TypeOK
PROPERTY SortSorts
PROPERTY ToBoolSpinInverse
VIEW View
CHECK_DEADLOCK FALSE
