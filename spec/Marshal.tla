------------------------------- MODULE Marshal -------------------------------
(***************************************************************************)
(* C17: buffer and index discipline of the annealer's marshalling layer    *)
(* and C kernels (qubovert/sim/_anneal.py, _canneal.c, src/anneal_quso.c,  *)
(* src/anneal_puso.c).                                                     *)
(*                                                                         *)
(* A call is described by the MARSHALLED arguments                         *)
(*   quso: N = Len(h), nn (num_neighbors), nb (neighbors), J               *)
(*   puso: N, nc (num_couplings), tm (terms), ncp = Len(couplings)         *)
(*   numAnneals, lenTs, lenInit (0: no initial state)                      *)
(* QusoAccesses / PusoAccesses are the sets of <<buffer, index, length>>   *)
(* the wrapper and the kernel read or write for that call, transcribed     *)
(* from the C sources; InBounds says every index is inside its buffer.     *)
(* The front end's flattening (FrontQuso / FrontPuso) is transcribed from  *)
(* _anneal.py; the state machine enumerates every model the front end can  *)
(* be given within the bounds - including stale models whose reported      *)
(* number of variables exceeds the variables that occur, Matrix labels     *)
(* with gaps, and no terms at all - and TLC checks InBounds for all.       *)
(* The same predicates are evaluated by CheckMarshal.tla on the arguments  *)
(* recorded from real calls.                                               *)
(* GuardIndex0 = FALSE is the pinned anneal_puso.c (index[0] = 0 written   *)
(* into malloc(0) when there are no terms: defect F4).                     *)
(***************************************************************************)
EXTENDS Integers, Sequences, SequencesExt, FiniteSets, FiniteSetsExt, TLC
CONSTANTS MaxN, MaxTerms, MaxAnneals, GuardIndex0

RECURSIVE Pre(_, _)
Pre(s, n) == IF n = 0 THEN 0 ELSE Pre(s, n - 1) + s[n]          \* sum of the first n entries
Total(s) == Pre(s, Len(s))
Acc(b, i, n) == <<b, i, n>>
InBounds(S) == \A a \in S : 0 <= a[2] /\ a[2] < a[3]

\* ------------------------------- QUSO -------------------------------
QusoAccesses(h, nn, nb, J, numAnneals, lenTs, lenInit) ==
  LET N == Len(h)  lenJ == Len(J)
      idx(i) == Pre(nn, i)                                        \* index[i], i 0-based
      rows == UNION {{<<i, q>> : q \in 0..(nn[i + 1] - 1)} : i \in 0..(N - 1)}
  IN \* _canneal.c: conversion of the Python lists
        {Acc("py_num_neighbors", i, Len(nn)) : i \in 0..(N - 1)}
     \cup {Acc("py_neighbors", i, Len(nb)) : i \in 0..(lenJ - 1)}
     \cup (IF lenInit > 0 THEN {Acc("py_initial_state", j, lenInit) : j \in 0..(N - 1)} ELSE {})
     \* anneal_quso: index[0] = 0 and the prefix sums
     \cup {Acc("index", 0, N)}
     \cup {Acc("index", i, N) : i \in 1..(N - 1)}
     \* compute_flip_dE / recompute_flip_dE / quso_value: row i of neighbors and J, then state[neighbor]
     \cup {Acc("neighbors", idx(r[1]) + r[2], Len(nb)) : r \in rows}
     \cup {Acc("J", idx(r[1]) + r[2], lenJ) : r \in rows}
     \cup {Acc("state", nb[idx(r[1]) + r[2] + 1], N) : r \in {x \in rows : idx(x[1]) + x[2] < Len(nb)}}
     \cup {Acc("flip_spin_dE", nb[idx(r[1]) + r[2] + 1], N) : r \in {x \in rows : idx(x[1]) + x[2] < Len(nb)}}
     \* result buffers
     \cup {Acc("values", a, numAnneals) : a \in 0..(numAnneals - 1)}
     \cup {Acc("states", a * N + j, numAnneals * N) : a \in 0..(numAnneals - 1), j \in 0..(N - 1)}
QusoPre(h, nn, nb, J) == Len(nn) = Len(h) /\ \A i \in 1..Len(nn) : nn[i] >= 0

\* ------------------------------- PUSO -------------------------------
PusoAccesses(N, nc, tm, ncp, numAnneals, lenTs, lenInit) ==
  LET numTerms == Len(nc)
      idx(t) == Pre(nc, t)                                        \* index[t], t 0-based
      cells == UNION {{<<t, q>> : q \in 0..(nc[t + 1] - 1)} : t \in 0..(numTerms - 1)}
      inTm == {x \in cells : idx(x[1]) + x[2] < Len(tm)}
  IN   {Acc("py_couplings", t, ncp) : t \in 0..(numTerms - 1)}
     \cup (IF lenInit > 0 THEN {Acc("py_initial_state", j, lenInit) : j \in 0..(N - 1)} ELSE {})
     \* anneal_puso: index = malloc(num_terms * sizeof(long)); index[0] = 0;
     \cup (IF GuardIndex0 /\ numTerms = 0 THEN {} ELSE {Acc("index", 0, numTerms)})
     \cup {Acc("index", t, numTerms) : t \in 1..(numTerms - 1)}
     \cup {Acc("terms", idx(x[1]) + x[2], Len(tm)) : x \in cells}
     \* subgraphs[j] for the spin j found in a term; state[j] in the products
     \cup {Acc("subgraphs", tm[idx(x[1]) + x[2] + 1], N) : x \in inTm}
     \cup {Acc("state", tm[idx(x[1]) + x[2] + 1], N) : x \in inTm}
     \cup {Acc("subgraphs", i, N) : i \in 0..(N - 1)}
     \cup {Acc("values", a, numAnneals) : a \in 0..(numAnneals - 1)}
     \cup {Acc("states", a * N + j, numAnneals * N) : a \in 0..(numAnneals - 1), j \in 0..(N - 1)}
PusoPre(N, nc, tm, ncp) == ncp = Len(nc) /\ \A t \in 1..Len(nc) : nc[t] >= 0

\* ------------------------ the front end's flattening ------------------------
\* a model is a sequence of keys (strictly increasing sequences of indices < N); _anneal.py skips the empty key
KeySeqs(n, maxdeg) == {SetToSortSeq(S, <) : S \in {T \in SUBSET (0..(n - 1)) : Cardinality(T) <= maxdeg}}
FrontQuso(N, keys) ==
  LET pairs == SelectSeq(keys, LAMBDA k : Len(k) = 2)
      \* neighbors[i] in model order: for a pair (i, j): neighbors[i].append(j), neighbors[j].append(i)
      rowOf(i) == LET sel == SelectSeq(pairs, LAMBDA k : k[1] = i \/ k[2] = i)
                  IN [q \in 1..Len(sel) |-> IF sel[q][1] = i THEN sel[q][2] ELSE sel[q][1]]
      rows == [i \in 1..N |-> rowOf(i - 1)]
  IN [h |-> [i \in 1..N |-> 0], nn |-> [i \in 1..N |-> Len(rows[i])], nb |-> FlattenSeq(rows), J |-> FlattenSeq(rows)]
FrontPuso(N, keys) ==
  LET ks == SelectSeq(keys, LAMBDA k : Len(k) > 0)
  IN [N |-> N, nc |-> [t \in 1..Len(ks) |-> Len(ks[t])], tm |-> FlattenSeq(ks), ncp |-> Len(ks)]

VARIABLES ph, kernel, N, keys, numAnneals, lenTs, initProvided
vars == <<ph, kernel, N, keys, numAnneals, lenTs, initProvided>>
Init == ph = 0 /\ kernel = "quso" /\ N = 1 /\ keys = << >> /\ numAnneals = 1 /\ lenTs = 0 /\ initProvided = FALSE
\* `if not N: return` guards N = 0; num_anneals <= 0 returns before the C call
Choose == /\ ph = 0 /\ ph' = 1
          /\ kernel' \in {"quso", "puso"} /\ N' \in 1..MaxN
          /\ numAnneals' \in 1..MaxAnneals /\ lenTs' \in 0..1 /\ initProvided' \in BOOLEAN
          /\ UNCHANGED keys
ChooseKeys == /\ ph = 1 /\ ph' = 2
              /\ \E n \in 0..MaxTerms : \E ks \in [1..n -> KeySeqs(N, IF kernel = "quso" THEN 2 ELSE 3)] :
                    /\ \A a, b \in 1..n : a # b => ks[a] # ks[b]
                    /\ keys' = ks
              /\ UNCHANGED <<kernel, N, numAnneals, lenTs, initProvided>>
Next == Choose \/ ChooseKeys
Spec == Init /\ [][Next]_vars
LenInit == IF initProvided THEN N ELSE 0
CallAccesses == IF kernel = "quso"
                THEN LET m == FrontQuso(N, keys) IN QusoAccesses(m.h, m.nn, m.nb, m.J, numAnneals, lenTs, LenInit)
                ELSE LET m == FrontPuso(N, keys) IN PusoAccesses(m.N, m.nc, m.tm, m.ncp, numAnneals, lenTs, LenInit)
AllInBounds == ph = 2 => InBounds(CallAccesses)
FrontEndPre == ph = 2 => IF kernel = "quso" THEN LET m == FrontQuso(N, keys) IN QusoPre(m.h, m.nn, m.nb, m.J) /\ Total(m.nn) = Len(m.nb)
                         ELSE LET m == FrontPuso(N, keys) IN PusoPre(m.N, m.nc, m.tm, m.ncp) /\ Total(m.nc) = Len(m.tm)
=============================================================================
