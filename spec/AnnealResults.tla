--------------------------- MODULE AnnealResults ---------------------------
(***************************************************************************)
(* Implementation-shaped model of qubovert.sim.AnnealResults               *)
(* (qubovert/sim/_anneal_results.py): a Python list of AnnealResult        *)
(* objects with a cached attribute `best`.                                 *)
(*                                                                         *)
(* Two collections c[1], c[2]; each is [items : Seq(Elem), best : Elem or  *)
(* None].  An element is [id, v, sp]: `id` identifies the state carried by *)
(* the result (the conformance harness gives every created result a state  *)
(* that encodes its id, in boolean or in spin form), `v` its value, `sp`   *)
(* its spin flag.  One action per operation named in property C13; the     *)
(* list part of every action is exact Python list semantics, the `best`    *)
(* part is what the CODE does (incremental updates, _recompute_best with   *)
(* "first strictly smaller wins").                                         *)
(*                                                                         *)
(* Fixed = TRUE  : the tree with the repairs F2/F3 (extend/+= guard None;  *)
(*                 item/slice assignment and deletion recompute best).     *)
(* Fixed = FALSE : the pinned tree (negative configuration: TLC must find  *)
(*                 NoRaise and BestIsMin violations).                      *)
(***************************************************************************)
EXTENDS Integers, Sequences, SequencesExt, FiniteSets, FiniteSetsExt, TLC
CONSTANTS Vals,      \* values new results may carry
          MaxLen,    \* bound on the length of a collection
          MaxId,     \* bound on the number of results ever created
          Fixed
VARIABLES c, nextId, err, op
vars == <<c, nextId, err, op>>

Coll == {1, 2}
None == [id |-> 0, v |-> 0, sp |-> FALSE]
Elem(i, v) == [id |-> i, v |-> v, sp |-> (i % 2 = 1)]     \* odd ids are created in spin form
Min2(a, b) == IF a < b THEN a ELSE b
Max2(a, b) == IF a > b THEN a ELSE b

\* ---------------- Python list semantics ----------------
Clamp(i, n) == Max2(0, Min2(i, n))
NormIdx(i, n) == IF i < 0 THEN i + n ELSE i                 \* a[-1] is a[n-1]
Slice(s, lo, hi) == SubSeq(s, Clamp(lo, Len(s)) + 1, Clamp(hi, Len(s)))
SetSlice(s, lo, hi, t) == LET l == Clamp(lo, Len(s))  h == Max2(l, Clamp(hi, Len(s)))
                          IN SubSeq(s, 1, l) \o t \o SubSeq(s, h + 1, Len(s))
DelSlice(s, lo, hi) == SetSlice(s, lo, hi, <<>>)
InsertPy(s, i, x) == LET p == Clamp(NormIdx(i, Len(s)), Len(s)) IN SubSeq(s, 1, p) \o <<x>> \o SubSeq(s, p + 1, Len(s))
RemoveIdx(s, p) == SubSeq(s, 1, p - 1) \o SubSeq(s, p + 1, Len(s))        \* p is 1-based
FirstIdx(s, x) == CHOOSE p \in 1..Len(s) : s[p] = x /\ \A q \in 1..(p-1) : s[q] # x
RECURSIVE Repeat(_, _)
Repeat(s, n) == IF n <= 0 THEN <<>> ELSE s \o Repeat(s, n - 1)
EveryOther(s) == [i \in 1..((Len(s) + 1) \div 2) |-> s[2*i - 1]]            \* s[::2]
Rev(s) == [i \in 1..Len(s) |-> s[Len(s) + 1 - i]]                           \* s[::-1]
SortedPerms(s) == {t \in {[i \in 1..Len(s) |-> s[p[i]]] : p \in {q \in [1..Len(s) -> 1..Len(s)] : \A a, b \in 1..Len(s) : a # b => q[a] # q[b]}} :
                      \A i \in 1..(Len(t) - 1) : t[i].v <= t[i+1].v}

\* ---------------- the cached `best` as the code maintains it ----------------
RECURSIVE Recompute(_, _, _)
Recompute(s, i, b) == IF i > Len(s) THEN b
                      ELSE Recompute(s, i + 1, IF b = None \/ s[i].v < b.v THEN s[i] ELSE b)
Best(s) == Recompute(s, 1, None)                        \* _recompute_best
Better(r, b) == IF b = None \/ r.v < b.v THEN r ELSE b  \* append / insert
AppendTo(col, r) == [items |-> Append(col.items, r), best |-> Better(r, col.best)]
FromSeq(s) == [items |-> s, best |-> Best(s)]           \* AnnealResults(iterable): append one by one
Empty == [items |-> <<>>, best |-> None]

Init == c = [k \in Coll |-> Empty] /\ nextId = 1 /\ err = FALSE /\ op = <<"init">>

Len_(k) == Len(c[k].items)
Fits(n) == n <= MaxLen
CanCreate == nextId <= MaxId
Same == UNCHANGED <<nextId, err>>

\* --- element-wise mutators ---
DoAppend(k, v) == /\ Fits(Len_(k) + 1) /\ CanCreate
                  /\ c' = [c EXCEPT ![k] = AppendTo(@, Elem(nextId, v))]
                  /\ nextId' = nextId + 1 /\ err' = err /\ op' = <<"append", k, v>>
DoAddState(k, v) == /\ Fits(Len_(k) + 1) /\ CanCreate
                    /\ c' = [c EXCEPT ![k] = AppendTo(@, Elem(nextId, v))]
                    /\ nextId' = nextId + 1 /\ err' = err /\ op' = <<"add_state", k, v>>
DoInsert(k, i, v) == /\ Fits(Len_(k) + 1) /\ CanCreate /\ i \in -1..Len_(k)
                     /\ LET r == Elem(nextId, v) IN
                        c' = [c EXCEPT ![k] = [items |-> InsertPy(@.items, i, r), best |-> Better(r, @.best)]]
                     /\ nextId' = nextId + 1 /\ err' = err /\ op' = <<"insert", k, i, v>>
\* pop(index): IndexError on an empty list exactly as list.pop, so only enabled when non-empty
DoPop(k, i) == /\ Len_(k) > 0 /\ i \in -1..(Len_(k) - 1)
               /\ LET p == NormIdx(i, Len_(k)) + 1
                      x == c[k].items[p]
                      s2 == RemoveIdx(c[k].items, p)
                  IN c' = [c EXCEPT ![k] = [items |-> s2, best |-> IF x = @.best THEN Best(s2) ELSE @.best]]
               /\ Same /\ op' = <<"pop", k, i>>
\* remove(x) with x the element at position i (ValueError for absent elements exactly as list.remove)
DoRemove(k, i) == /\ i \in 0..(Len_(k) - 1)
                  /\ LET x == c[k].items[i + 1]
                         s2 == RemoveIdx(c[k].items, FirstIdx(c[k].items, x))
                     IN c' = [c EXCEPT ![k] = [items |-> s2, best |-> IF x = @.best THEN Best(s2) ELSE @.best]]
                  /\ Same /\ op' = <<"remove", k, i>>
DoClear(k) == c' = [c EXCEPT ![k] = Empty] /\ Same /\ op' = <<"clear", k>>
\* sort: list.sort is stable, and the generated behaviours follow it (StableSort) so that replays stay in step with
\* CPython; the statement only says "orders by value", so AnnealResultsTrace accepts ANY value-sorted permutation
\* (SortedPerms) from the implementation.
StableSort(s) == LET idx == SortSeq([i \in 1..Len(s) |-> i], LAMBDA a, b : s[a].v < s[b].v \/ (s[a].v = s[b].v /\ a < b))
                 IN [i \in 1..Len(s) |-> s[idx[i]]]
DoSort(k) == /\ c' = [c EXCEPT ![k].items = StableSort(@)]
             /\ Same /\ op' = <<"sort", k>>
\* sort(key=..., reverse=...): the inherited list.sort with a caller's key (stable; with reverse the order of the keys is
\* reversed, the order of equal keys is kept).  `best` is not touched - and need not be: it is still the minimum.
KeyOf(mode, r) == CASE mode = "id" -> r.id [] mode = "negv" -> 0 - r.v [] OTHER -> r.v
SortByKey(s, mode, rev) ==
    LET before(a, b) == IF KeyOf(mode, s[a]) = KeyOf(mode, s[b]) THEN a < b
                        ELSE IF rev THEN KeyOf(mode, s[a]) > KeyOf(mode, s[b]) ELSE KeyOf(mode, s[a]) < KeyOf(mode, s[b])
        idx == SortSeq([i \in 1..Len(s) |-> i], before)
    IN [i \in 1..Len(s) |-> s[idx[i]]]
DoSortKey(k, mode, rev) == /\ c' = [c EXCEPT ![k].items = SortByKey(@, mode, rev)]
                           /\ Same /\ op' = <<"sortkey", k, mode, rev>>
DoSortAny(k, t) == /\ t \in SortedPerms(c[k].items) /\ c' = [c EXCEPT ![k].items = t]
                   /\ Same /\ op' = <<"sort", k>>

\* --- extend / += (aslist: the operand is handed over as a plain list) ---
ExtendBest(k, o, aslist) ==
    IF aslist THEN Recompute(c[o].items, 1, c[k].best)               \* append one by one
    ELSE IF c[o].best # None /\ (c[k].best = None \/ c[o].best.v < c[k].best.v) THEN c[o].best ELSE c[k].best
ExtendRaises(k, o, aslist) == ~Fixed /\ ~aslist /\ (c[k].best = None \/ c[o].best = None)
DoExtend(name, k, o, aslist) ==
    /\ Fits(Len_(k) + Len_(o))
    /\ IF ExtendRaises(k, o, aslist)
       THEN err' = TRUE /\ c' = c                                    \* AttributeError / TypeError on None
       ELSE err' = err /\ c' = [c EXCEPT ![k] = [items |-> @.items \o c[o].items, best |-> ExtendBest(k, o, aslist)]]
    /\ UNCHANGED nextId /\ op' = <<name, k, o, aslist>>

\* --- item and slice assignment / deletion (plain list methods on the pinned tree) ---
AfterEdit(old, s2) == [items |-> s2, best |-> IF Fixed THEN Best(s2) ELSE old.best]
DoSetItem(k, i, v) == /\ Len_(k) > 0 /\ i \in -1..(Len_(k) - 1) /\ CanCreate
                      /\ LET s2 == [c[k].items EXCEPT ![NormIdx(i, Len_(k)) + 1] = Elem(nextId, v)]
                         IN c' = [c EXCEPT ![k] = AfterEdit(@, s2)]
                      /\ nextId' = nextId + 1 /\ err' = err /\ op' = <<"setitem", k, i, v>>
DoDelItem(k, i) == /\ Len_(k) > 0 /\ i \in -1..(Len_(k) - 1)
                   /\ c' = [c EXCEPT ![k] = AfterEdit(@, RemoveIdx(@.items, NormIdx(i, Len_(k)) + 1))]
                   /\ Same /\ op' = <<"delitem", k, i>>
\* c[k][lo:hi] = list(c[o])
DoSetSlice(k, lo, hi, o) == /\ lo \in 0..MaxLen /\ hi \in 0..MaxLen
                            /\ LET s2 == SetSlice(c[k].items, lo, hi, c[o].items) IN
                               /\ Fits(Len(s2))
                               /\ c' = [c EXCEPT ![k] = AfterEdit(@, s2)]
                            /\ Same /\ op' = <<"setslice", k, lo, hi, o>>
DoDelSlice(k, lo, hi) == /\ lo \in 0..MaxLen /\ hi \in 0..MaxLen /\ lo < hi /\ lo < Len_(k)
                         /\ c' = [c EXCEPT ![k] = AfterEdit(@, DelSlice(@.items, lo, hi))]
                         /\ Same /\ op' = <<"delslice", k, lo, hi>>

\* --- derived collections: all are built by the constructor (append one by one); result into slot d ---
Derive(d, s) == /\ Fits(Len(s)) /\ c' = [c EXCEPT ![d] = FromSeq(s)] /\ Same
DoCopy(k, d) == k # d /\ Derive(d, c[k].items) /\ op' = <<"copy", k, d>>
DoAdd(k, o, aslist, d) == Derive(d, c[k].items \o c[o].items) /\ op' = <<"add", k, o, aslist, d>>
DoMul(k, n, d) == Derive(d, Repeat(c[k].items, n)) /\ op' = <<"mul", k, n, d>>
DoGetSlice(k, lo, hi, d) == /\ lo \in 0..MaxLen /\ hi \in 0..MaxLen
                            /\ Derive(d, Slice(c[k].items, lo, hi)) /\ op' = <<"getslice", k, lo, hi, d>>
DoEveryOther(k, d) == Derive(d, EveryOther(c[k].items)) /\ op' = <<"everyother", k, d>>
DoReversed(k, d) == Derive(d, Rev(c[k].items)) /\ op' = <<"reversed", k, d>>
DoFilter(k, t, d) == Derive(d, SelectSeq(c[k].items, LAMBDA r : r.v <= t)) /\ op' = <<"filter", k, t, d>>
DoFilterStates(k, par, d) == Derive(d, SelectSeq(c[k].items, LAMBDA r : r.id % 2 = par)) /\ op' = <<"filter_states", k, par, d>>
\* apply_function with  f(r) = AnnealResult(r.state, Flip(r.value), r.spin): reverses the order of values
MaxV == Max(Vals)   MinV == Min(Vals)
FlipV(v) == MaxV + MinV - v
DoApply(k, d) == Derive(d, [i \in 1..Len_(k) |-> [c[k].items[i] EXCEPT !.v = FlipV(@)]]) /\ op' = <<"apply_function", k, d>>
\* convert_states with an identity-like function (dict copy)
DoConvertStates(k, d) == Derive(d, c[k].items) /\ op' = <<"convert_states", k, d>>
DoToBoolean(k, d) == Derive(d, [i \in 1..Len_(k) |-> [c[k].items[i] EXCEPT !.sp = FALSE]]) /\ op' = <<"to_boolean", k, d>>
DoToSpin(k, d) == Derive(d, [i \in 1..Len_(k) |-> [c[k].items[i] EXCEPT !.sp = TRUE]]) /\ op' = <<"to_spin", k, d>>
\* AnnealResults([AnnealResult(..v1..), AnnealResult(..v2..)]) built from fresh results
DoConstruct(d, v1, v2) == /\ nextId + 1 <= MaxId /\ Fits(2)
                          /\ c' = [c EXCEPT ![d] = FromSeq(<<Elem(nextId, v1), Elem(nextId + 1, v2)>>)]
                          /\ nextId' = nextId + 2 /\ err' = err /\ op' = <<"construct", d, v1, v2>>

Next == \E k \in Coll :
          \/ \E v \in Vals : DoAppend(k, v) \/ DoAddState(k, v)
          \/ \E v \in Vals, i \in -1..MaxLen : DoInsert(k, i, v) \/ DoSetItem(k, i, v)
          \/ \E i \in -1..MaxLen : DoPop(k, i) \/ DoRemove(k, i) \/ DoDelItem(k, i)
          \/ DoClear(k) \/ DoSort(k)
          \/ \E mode \in {"id", "negv", "v"}, rev \in BOOLEAN : DoSortKey(k, mode, rev)
          \/ \E o \in Coll, aslist \in BOOLEAN : DoExtend("extend", k, o, aslist) \/ DoExtend("iadd", k, o, aslist)
          \* the operand handed over as a one-shot iterator (generator / map object): same meaning as a list
          \/ \E o \in Coll : DoExtend("extend_iter", k, o, TRUE) \/ DoExtend("iadd_iter", k, o, TRUE)
          \/ \E lo, hi \in 0..MaxLen : DoDelSlice(k, lo, hi) \/ (\E o \in Coll : DoSetSlice(k, lo, hi, o))
          \/ \E d \in Coll :
               \/ DoCopy(k, d) \/ DoEveryOther(k, d) \/ DoReversed(k, d) \/ DoApply(k, d)
               \/ DoConvertStates(k, d) \/ DoToBoolean(k, d) \/ DoToSpin(k, d)
               \/ \E o \in Coll, aslist \in BOOLEAN : DoAdd(k, o, aslist, d)
               \/ \E n \in 0..2 : DoMul(k, n, d)
               \/ \E lo, hi \in 0..MaxLen : DoGetSlice(k, lo, hi, d)
               \/ \E t \in Vals : DoFilter(k, t, d)
               \/ \E par \in {0, 1} : DoFilterStates(k, par, d)
          \/ \E v1, v2 \in Vals : DoConstruct(k, v1, v2)
Spec == Init /\ [][Next]_vars

\* ---------------- the property (C13) ----------------
BestIsMinOf(col) == IF col.items = <<>> THEN col.best = None
                    ELSE /\ \E i \in 1..Len(col.items) : col.items[i] = col.best
                         /\ \A i \in 1..Len(col.items) : col.best.v <= col.items[i].v
BestIsMin == \A k \in Coll : BestIsMinOf(c[k])
NoRaise == ~err
TypeOK == /\ \A k \in Coll : Len(c[k].items) <= MaxLen
          /\ nextId \in 1..(MaxId + 1)
\* sort really sorts (action property)
SortSorts == [][op'[1] = "sort" => LET k == op'[2] IN \A i \in 1..(Len(c'[k].items) - 1) : c'[k].items[i].v <= c'[k].items[i+1].v]_vars
\* to_boolean / to_spin preserve ids and values and are mutually inverse on the spin flag
ToBoolSpinInverse == [][op'[1] \in {"to_boolean", "to_spin"} =>
                          LET k == op'[2]  d == op'[3] IN
                          /\ Len(c'[d].items) = Len(c[k].items)
                          /\ \A i \in 1..Len(c[k].items) : /\ c'[d].items[i].id = c[k].items[i].id
                                                           /\ c'[d].items[i].v = c[k].items[i].v
                                                           /\ c'[d].items[i].sp = (op'[1] = "to_spin")]_vars
\* the history variable `op` is not part of the explored state
View == <<c, nextId, err>>
=============================================================================
