----------------------------- MODULE Constraints -----------------------------
(***************************************************************************)
(* The constraint methods of PCBO / PCSO (qubovert/_pcbo.py, _pcso.py):    *)
(*  (1) the CONTRACT a penalty must satisfy (PenaltyExact, GateOK) -       *)
(*      independent of how the penalty is built, evaluated by TLC both on  *)
(*      the transcription below and on what the real code returns          *)
(*      (CheckConstraints.tla);                                            *)
(*  (2) an implementation-shaped TRANSCRIPTION of the case analysis of     *)
(*      add_constraint_{eq,ne,lt,le,gt,ge}_zero incl. the special cases,   *)
(*      bounds handling, slack sizing with / without log_trick, the sign   *)
(*      ancilla of `ne`, the sixteen logic-gate methods and the PCSO       *)
(*      wrapper (to boolean, constrain, back to spin).                     *)
(* A result is [F: penalty polynomial, anc: ancilla counter afterwards,    *)
(* unsat: the library warns "cannot be satisfied"].                        *)
(***************************************************************************)
EXTENDS Poly
BitLength(v) == CHOOSE k \in 0..31 : Pow2(k) > v /\ (k = 0 \/ Pow2(k - 1) <= v)
NumBits(v, lt) == IF lt THEN BitLength(v) ELSE v                       \* utils.num_bits
Anc(k) == "__a" \o ToString(k)
Half(p) == [m \in DOMAIN p |-> p[m] \div 2]
NoBound == 99999
Given(lo, hi) == [lo |-> lo, hi |-> hi]
NoB == Given(NoBound, NoBound)
GetBounds(p, b) == LET a == ApproxB(p) IN [lo |-> IF b.lo = NoBound THEN a.lo ELSE b.lo, hi |-> IF b.hi = NoBound THEN a.hi ELSE b.hi]
Res(F, anc, unsat) == [F |-> F, anc |-> anc, unsat |-> unsat]
AndGadget(a, b, c) == Add(Add(Mono({a}, 3), Mono({b, c}, 1)), Add(Mono({a, b}, -2), Mono({a, c}, -2)))

\* ---------------- add_constraint_eq_zero ----------------
IsSpecialEqAnd(P) == /\ Offset(P) = 0 /\ Cardinality(VarsOf(P)) = 3 /\ Cardinality(DOMAIN P) = 2
                     /\ \E m1, m2 \in DOMAIN P : m1 # m2 /\ P[m1] = -P[m2] /\ {Cardinality(m1), Cardinality(m2)} = {1, 2}
EqZero(P, lam, b, anc) ==
  IF IsSpecialEqAnd(P) THEN
     LET m1 == CHOOSE m \in DOMAIN P : Cardinality(m) = 1
         m2 == CHOOSE m \in DOMAIN P : Cardinality(m) = 2
         a == CHOOSE x \in m1 : TRUE
         bb == CHOOSE x \in m2 : TRUE
         cc == CHOOSE x \in m2 : x # bb
     IN Res(Scale(lam, AndGadget(a, bb, cc)), anc, FALSE)
  ELSE LET bd == GetBounds(P, b) IN
     IF bd.lo = 0 /\ bd.hi = 0 THEN Res(Zero, anc, FALSE)
     ELSE IF bd.lo > 0 THEN Res(Scale(lam, P), anc, TRUE)
     ELSE IF bd.hi < 0 THEN Res(Scale(-lam, P), anc, TRUE)
     ELSE IF bd.lo = 0 THEN Res(Scale(lam, P), anc, FALSE)
     ELSE IF bd.hi = 0 THEN Res(Scale(-lam, P), anc, FALSE)
     ELSE Res(Scale(lam, MulB(P, P)), anc, FALSE)

\* ---------------- add_constraint_le_zero ----------------
RECURSIVE SlackSum(_, _, _, _)
SlackSum(start, n, lt, i) == IF i >= n THEN Zero ELSE Add(Mono({Anc(start + i)}, IF lt THEN Pow2(i) ELSE 1), SlackSum(start, n, lt, i + 1))
SlackMax(n, lt) == IF lt THEN Pow2(n) - 1 ELSE n
LeZero(P, lam, lt, b, anc) ==
  LET bd == GetBounds(P, b)
      off == Offset(P)
      Pwo == WoOffset(P)
  IN
  IF off = -1 /\ \A m \in DOMAIN Pwo : Pwo[m] = 1 THEN Res(Scale(lam, Half(MulB(P, Pwo))), anc, FALSE)      \* sum x_i <= 1
  ELSE IF ~lt /\ bd.lo - off = 0 /\ off <= 0 /\ bd.lo # 0 THEN                                             \* unary slack on P_wo_offset
       LET n == NumBits(-off, FALSE)
           diff == Sub(Pwo, SlackSum(anc, n, FALSE, 0))
       IN Res(Scale(lam, MulB(diff, diff)), anc + n, FALSE)
  ELSE IF off = 1 /\ Cardinality(DOMAIN Pwo) = 2 /\ \A m \in DOMAIN Pwo : Pwo[m] = -1 THEN                 \* 1 <= x + y : OR
       LET m1 == CHOOSE m \in DOMAIN Pwo : TRUE
           m2 == CHOOSE m \in DOMAIN Pwo : m # m1
       IN Res(Scale(lam, MulB(Sub(Const(1), Mono(m1, 1)), Sub(Const(1), Mono(m2, 1)))), anc, FALSE)
  ELSE IF off = 0 /\ Cardinality(DOMAIN P) = 2 /\ {P[m] : m \in DOMAIN P} = {1, -1} THEN                   \* x <= y
       LET mx == CHOOSE m \in DOMAIN P : P[m] = 1
           my == CHOOSE m \in DOMAIN P : P[m] = -1
       IN Res(Scale(lam, MulB(Mono(mx, 1), Sub(Const(1), Mono(my, 1)))), anc, FALSE)
  ELSE IF bd.lo > 0 THEN Res(Scale(lam, P), anc, TRUE)
  ELSE IF bd.hi <= 0 THEN Res(Zero, anc, FALSE)
  ELSE LET n == IF bd.lo # 0 THEN NumBits(-bd.lo, lt) ELSE 0
           P2 == Add(P, SlackSum(anc, n, lt, 0))
       IN EqZero(P2, lam, Given(bd.lo, bd.hi + SlackMax(n, lt)), anc + n)
LtZero(P, lam, lt, b, anc) ==
  LET bd == GetBounds(P, b) IN
  IF bd.lo >= 0 THEN Res(Scale(lam, P), anc, TRUE)
  ELSE IF bd.hi < 0 THEN Res(Zero, anc, FALSE)
  ELSE LeZero(Add(P, Const(1)), lam, lt, Given(bd.lo + 1, bd.hi + 1), anc)
GtZero(P, lam, lt, b, anc) == LET bd == GetBounds(P, b) IN LtZero(Neg(P), lam, lt, Given(-bd.hi, -bd.lo), anc)
GeZero(P, lam, lt, b, anc) == LET bd == GetBounds(P, b) IN LeZero(Neg(P), lam, lt, Given(-bd.hi, -bd.lo), anc)
NeZero(P, lam, lt, b, anc) ==
  LET bd == GetBounds(P, b) IN
  IF bd.lo = 0 /\ bd.hi = 0 THEN Res(Const(lam), anc, TRUE)
  ELSE IF bd.lo > 0 \/ bd.hi < 0 THEN Res(Zero, anc, FALSE)
  ELSE IF bd.lo = 0 THEN GtZero(P, lam, TRUE, Given(bd.lo, bd.hi), anc)          \* log_trick is NOT forwarded here
  ELSE IF bd.hi = 0 THEN LtZero(P, lam, TRUE, Given(bd.lo, bd.hi), anc)
  ELSE LET sign == Add(Mono({Anc(anc)}, 2), Const(-1))
           n == NumBits((bd.hi + 1) - (bd.lo - 1) - 1, lt)
           slack == SlackSum(anc + 1, n, lt, 0)
           P2 == Add(Add(P, sign), MulB(sign, slack))
       IN EqZero(P2, lam, Given(bd.lo - 1 - SlackMax(n, lt), bd.hi + 1 + SlackMax(n, lt)), anc + 1 + n)
Apply(rel, P, lam, lt, b, anc) ==
  CASE rel = "eq" -> EqZero(P, lam, b, anc)
    [] rel = "ne" -> NeZero(P, lam, lt, b, anc)
    [] rel = "lt" -> LtZero(P, lam, lt, b, anc)
    [] rel = "le" -> LeZero(P, lam, lt, b, anc)
    [] rel = "gt" -> GtZero(P, lam, lt, b, anc)
    [] rel = "ge" -> GeZero(P, lam, lt, b, anc)
Holds(rel, v) == CASE rel = "eq" -> v = 0 [] rel = "ne" -> v # 0 [] rel = "lt" -> v < 0
                   [] rel = "le" -> v <= 0 [] rel = "gt" -> v > 0 [] rel = "ge" -> v >= 0
Rels == {"eq", "ne", "lt", "le", "gt", "ge"}

\* ---------------- PCSO wrapper ----------------
\* PCSO.add_constraint_R_zero(H): h = PCBO seeded with the counter; h.add_constraint(puso_to_pubo(H)); self += pubo_to_puso(h)
\* spin results are numerators over 2^d with d = Degree of the boolean penalty
ApplySpin(rel, H, lam, lt, b, anc) ==
  LET r == Apply(rel, ToBool(H), lam, lt, b, anc)
      d == Degree(r.F)
  IN [F |-> ToSpinNum(r.F, d), d |-> d, anc |-> r.anc, unsat |-> r.unsat]

\* ---------------- the contract ----------------
\* F: penalty, P: constrained polynomial, X: labels of P (and of the model), unsat: warned unsatisfiable
\* spin = FALSE: assignments are sets of ones; TRUE: sets of minus spins.  scale: F is given over this denominator.
PenaltyAt(spin, F, P, rel, lam, scale, unsat, x, A) ==
     LET vals == {Eval(spin, F, x \cup a) : a \in SUBSET A} IN
     /\ \A v \in vals : v >= 0
     /\ unsat \/ IF Holds(rel, Eval(spin, P, x)) THEN 0 \in vals ELSE \A v \in vals : v >= lam * scale
PenaltyExact(spin, F, P, rel, lam, scale, X, unsat) ==
  LET A == VarsOf(F) \ X IN \A x \in SUBSET X : PenaltyAt(spin, F, P, rel, lam, scale, unsat, x, A)

\* ---------------- logic gates (qubovert.sat and the 16 PCBO methods) ----------------
One == Const(1)
NotP(p) == Sub(One, p)
RECURSIVE AndP(_), OrP(_), XorP(_)
AndP(ops) == IF Len(ops) = 0 THEN One ELSE MulB(AndP(Front(ops)), Last(ops))
OrP(ops)  == IF Len(ops) = 0 THEN One ELSE IF Len(ops) = 1 THEN ops[1]
             ELSE LET x == OrP(Front(ops)) v == Last(ops) IN Add(x, MulB(v, NotP(x)))
XorP(ops) == IF Len(ops) = 0 THEN One ELSE IF Len(ops) = 1 THEN ops[1]
             ELSE LET d == Sub(XorP(Front(ops)), Last(ops)) IN MulB(d, d)
TruthAnd(ops, x) == IF \A i \in 1..Len(ops) : EvalB(ops[i], x) = 1 THEN 1 ELSE 0
TruthOr(ops, x)  == IF \E i \in 1..Len(ops) : EvalB(ops[i], x) = 1 THEN 1 ELSE 0
TruthXor(ops, x) == Cardinality({i \in 1..Len(ops) : EvalB(ops[i], x) = 1}) % 2
Truth(g, ops, x) == CASE g = "AND" -> TruthAnd(ops, x) [] g = "NAND" -> 1 - TruthAnd(ops, x)
                      [] g = "OR" -> TruthOr(ops, x) [] g = "NOR" -> 1 - TruthOr(ops, x)
                      [] g = "XOR" -> TruthXor(ops, x) [] g = "XNOR" -> 1 - TruthXor(ops, x)
                      [] g = "BUFFER" -> EvalB(ops[1], x) [] g = "NOT" -> 1 - EvalB(ops[1], x)
Build(g, ops) == CASE g = "AND" -> AndP(ops) [] g = "NAND" -> NotP(AndP(ops))
                   [] g = "OR" -> OrP(ops) [] g = "NOR" -> NotP(OrP(ops))
                   [] g = "XOR" -> XorP(ops) [] g = "XNOR" -> NotP(XorP(ops))
                   [] g = "BUFFER" -> ops[1] [] g = "NOT" -> NotP(ops[1])
Gates == {"AND", "NAND", "OR", "NOR", "XOR", "XNOR", "BUFFER", "NOT"}
B01 == Given(0, 1)   B11 == Given(-1, 1)   B03 == Given(0, 3)
EqZ(P, lam, b) == EqZero(P, lam, b, 0).F
RECURSIVE GateC(_, _, _)
GateC(g, ops, lam) ==
  CASE g = "BUFFER" -> EqZ(NotP(ops[1]), lam, B01)
    [] g = "NOT"    -> EqZ(ops[1], lam, B01)
    [] g = "AND"    -> EqZ(NotP(AndP(ops)), lam, B01)
    [] g = "NAND"   -> EqZ(AndP(ops), lam, B01)
    [] g = "OR"     -> EqZ(NotP(OrP(ops)), lam, B01)
    [] g = "XOR"    -> EqZ(NotP(XorP(ops)), lam, B01)
    [] g = "NOR"    -> EqZ(NotP(GateC("OR", ops, 1)), lam, B01)
    [] g = "XNOR"   -> EqZ(NotP(GateC("XOR", ops, 1)), lam, B01)
SplitB(ops) == AndP(SubSeq(ops, 1, Len(ops) \div 2))
SplitC(ops) == AndP(SubSeq(ops, Len(ops) \div 2 + 1, Len(ops)))
GateEq(g, a, ops, lam) ==
  CASE g = "AND"  -> LET b == SplitB(ops) c == SplitC(ops)
                     IN EqZ(Add(Add(Scale(3, a), MulB(b, c)), Scale(-2, MulB(a, Add(b, c)))), lam, B03)
    [] g = "NAND" -> LET b == SplitB(ops) c == SplitC(ops)
                     IN EqZ(Add(MulB(NotP(a), Sub(Const(3), Scale(2, Add(b, c)))), MulB(b, c)), lam, B03)
    [] g = "OR"   -> IF Len(ops) = 2 THEN LET b == ops[1] c == ops[2]
                        IN EqZ(Add(Add(Add(a, b), Add(c, MulB(b, c))), Scale(-2, MulB(a, Add(b, c)))), lam, B03)
                     ELSE EqZ(Sub(GateC("NOR", ops, 1), a), lam, B11)
    [] g = "NOR"  -> IF Len(ops) = 2 THEN LET b == ops[1] c == ops[2]
                        IN EqZ(Add(Add(Sub(Sub(Sub(One, a), b), c), MulB(b, c)), Scale(2, MulB(a, Add(b, c)))), lam, B03)
                     ELSE EqZ(Sub(GateC("OR", ops, 1), a), lam, B11)
    [] g = "XOR"  -> EqZ(Sub(GateC("XNOR", ops, 1), a), lam, B11)
    [] g = "XNOR" -> EqZ(Sub(GateC("XOR", ops, 1), a), lam, B11)
    [] g = "BUFFER" -> EqZ(Sub(a, ops[1]), lam, B11)
    [] g = "NOT"  -> EqZ(Sub(GateC("BUFFER", <<a>>, 1), ops[1]), lam, B11)
\* contracts of C06 / C07
BuildOK(g, ops, V) == \A x \in SUBSET V : EvalB(Build(g, ops), x) = Truth(g, ops, x)
GateHolds(g, eq, a, ops, x) == IF eq THEN EvalB(a, x) = Truth(g, ops, x) ELSE Truth(g, ops, x) = 1
GateOK(F, g, eq, a, ops, lam, V) == /\ VarsOf(F) \subseteq V
                                    /\ \A x \in SUBSET V : IF GateHolds(g, eq, a, ops, x) THEN EvalB(F, x) = 0 ELSE EvalB(F, x) >= lam
=============================================================================
