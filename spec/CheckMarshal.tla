---------------------------- MODULE CheckMarshal ----------------------------
(***************************************************************************)
(* C17, code level: the access predicates of Marshal.tla evaluated on the  *)
(* arguments the REAL front end handed to the C functions (recorded by     *)
(* wrapping c_anneal_quso / c_anneal_puso), plus the observations of the   *)
(* sanitizer runs: no sanitizer report, no crash, and results that do not  *)
(* depend on which calls were made before in the same process.             *)
(***************************************************************************)
EXTENDS Marshal, Json, IOUtils
Recs == ndJsonDeserialize(IOEnv.QV_RECS)
VARIABLES c, cph
cvars == <<c, cph>>
CInit == Init /\ c = 0 /\ cph = 0
CNext == /\ UNCHANGED vars
         /\ \/ cph = 0 /\ cph' = 1 /\ c' \in 1..16
            \/ cph = 1 /\ cph' = 2 /\ c' \in {i \in 1..Len(Recs) : i % 16 = c % 16}
CSpec == CInit /\ [][CNext]_<<cvars, vars>>
R == Recs[c]
Active == cph = 2
Clause(name, cond) == (~Active) \/ cond \/ (PrintT(<<"QVVIOL", name, c, R.id>>) /\ FALSE)
HasCall == R.kernel # "none"
RealAccesses == IF R.kernel = "quso" THEN QusoAccesses(R.h, R.nn, R.nb, R.J, R.num_anneals, R.lenTs, R.lenInit)
                ELSE PusoAccesses(R.N, R.nc, R.tm, R.ncp, R.num_anneals, R.lenTs, R.lenInit)
RealInBounds == Clause("RealInBounds", ~HasCall \/ InBounds(RealAccesses))
RealPre == Clause("RealPre", ~HasCall \/ IF R.kernel = "quso" THEN QusoPre(R.h, R.nn, R.nb, R.J) /\ Total(R.nn) = Len(R.nb) /\ Len(R.J) = Len(R.nb)
                                         ELSE PusoPre(R.N, R.nc, R.tm, R.ncp) /\ Total(R.nc) = Len(R.tm))
NoSanitizerReport == Clause("NoSanitizerReport", R.san = "")
OrderIndependent == Clause("OrderIndependent", R.apiA = R.apiB)
=============================================================================
