SPECIFICATION Spec
CONSTANTS
  N = 3
  Coefs <- CoefsM1
  MaxDeg = 3
  CacheFactor = 4
INVARIANT CacheExact
INVARIANT SubgraphExact
CHECK_DEADLOCK FALSE
