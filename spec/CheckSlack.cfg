SPECIFICATION Spec
INVARIANT SlackBits
CHECK_DEADLOCK FALSE
