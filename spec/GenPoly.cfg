
