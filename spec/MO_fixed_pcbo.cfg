SPECIFICATION Spec
CONSTANTS
  Labels = {"a", "b"}
  Vals <- ValsM101
  MaxKeyLen = 2
  Kind1 = "PCBO"
  Kind2 = "PCBO"
  FixedReg = TRUE
  FixedMul = TRUE
  MaxTerms = 4
  Depth = 5
INVARIANT UpperBounds
INVARIANT MappingBijection
INVARIANT StoredCanonical
INVARIANT AncCovers
PROPERTY RefreshExact
PROPERTY AncNeverReused
CONSTRAINT DepthBound
VIEW View
CHECK_DEADLOCK FALSE
