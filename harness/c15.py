"""C15 - approximate extrema always enclose the true extrema; anneal_temperature_range is ordered and non-negative."""
import copy
from fractions import Fraction
import json
import warnings

from . import common, pure
from .tlc import run_tlc

FNS = {"approximate_pubo_extrema": (False, False), "approximate_qubo_extrema": (False, True),
       "approximate_puso_extrema": (True, False), "approximate_quso_extrema": (True, True)}


def gen_case(rng):
    if rng.random() < 0.25:
        spin = rng.random() < 0.5
        kind = rng.choice(pure.SPIN_KINDS if spin else pure.BOOL_KINDS)
        labels, terms, matrix = pure.gen_model(rng, kind)
        p0 = rng.choice([0.0, 0.01, 0.3, 0.5, 0.9, 0.999, 1 - 1e-7, 1 - 1e-9, 1 - 1e-12])
        pf = rng.choice([p for p in [0.0, 1e-12, 0.001, 0.01, 0.3, 0.5, 0.9, 0.999, 1 - 1e-7, 1 - 1e-9, 1 - 1e-12] if p <= p0])
        case = {"op": "temprange", "spin": spin, "kind": kind, "labels": labels, "terms": terms, "p0": p0, "pf": pf}
        if kind == "dict" and spin and labels and rng.random() < 0.2:
            # a raw spin dict whose keys repeat every label an even number of times (it still mentions spins)
            l0 = labels[0]
            l1 = labels[1] if len(labels) > 1 else labels[0]
            case["terms"] = {(l0, l0): rng.choice([5, -2]), (l0, l1, l1, l0): 2}
        if kind != "dict" and rng.random() < 0.3:
            case["rescaled"] = rng.choice([100, 1000])       # asked once before, then rescaled in place, then asked again
        return case
    if rng.random() < 0.12:
        # the bounds helper of the constraint methods: missing bounds are computed, given ones are kept
        labels, terms, matrix = pure.gen_model(rng, "PUBO")
        return {"op": "bounds", "fn": "_get_bounds", "spin": False, "kind": "PUBO", "labels": labels, "terms": terms,
                "bmode": rng.choice(["none", "nonenone", "lo", "hi"]), "scale": rng.choice([0, 0, -40, -20, 20])}
    if rng.random() < 0.06:
        # very large exact coefficients c * 2^53 + d (Python ints): the enclosure must hold to the last unit
        spin = rng.random() < 0.5
        kind = rng.choice(["dict", "PUSO" if spin else "PUBO", "PUSOMatrix" if spin else "PUBOMatrix"])
        labels, terms, matrix = pure.gen_model(rng, kind, raw_dict_tricks=False, allow_empty=False, halves_p=0)
        big = {k: (rng.choice([-2, -1, 1, 2, 512, 512, -512, 400]), rng.choice([-1, 0, 1])) for k in terms}     # up to 2^62 each
        tm = {k: c * 2 ** 53 + d for k, (c, d) in big.items()}
        if not spin and rng.random() < 0.5:
            # the same as FLOATS of very different magnitude, where exact bounds are representable: a boolean model without
            # constant whose negative coefficients are all huge (c * 2^53) and whose positive ones are all small (d), or the
            # other way round - each one-sided sum stays within one magnitude class
            flip = rng.choice([1, -1])
            big = {k: ((-flip * abs(cc), 0) if rng.random() < 0.5 else (0, flip * (abs(dd) or 1))) for k, (cc, dd) in big.items() if k}
            if big:
                tm = {k: float(c * 2 ** 53 + d) for k, (c, d) in big.items()}
        return {"op": "extrema2", "fn": "approximate_puso_extrema" if spin else "approximate_pubo_extrema", "spin": spin, "kind": kind,
                "labels": labels, "terms": tm, "limbs": {repr(k): v for k, v in big.items()}}
    fn = rng.choice(sorted(FNS))
    spin, quad = FNS[fn]
    kinds = pure.SPIN_KINDS if spin else pure.BOOL_KINDS
    if quad:
        kinds = [k for k in kinds if k in pure.QUADK or k == "dict"]
    kind = rng.choice(kinds)
    labels, terms, matrix = pure.gen_model(rng, kind, quad=quad)
    # real coefficients: the whole model scaled by a power of two (exact in floating point), far below / above 1
    return {"op": "extrema", "fn": fn, "spin": spin, "kind": kind, "labels": labels, "terms": terms,
            "scale": rng.choice([0, 0, 0, 0, -40, -20, 20])}


def exhaustive_cases(polys, only_general_dict=False):
    out = []
    for p in polys:
        for fn in sorted(FNS):
            spin, quad = FNS[fn]
            if only_general_dict and not fn.startswith("approximate_pu"):
                continue
            for kind, labels in (("dict", ["a", (1, 2), 0]), ("PCSO" if spin else "PCBO", ["x", 3, "y"]) if not quad else
                                 ("QUSO" if spin else "QUBO", ["x", 3, "y"]), (("QUSOMatrix" if spin else "QUBOMatrix"), [0, 2, 3])):
                if only_general_dict and kind != "dict":
                    continue
                out.append({"op": "extrema", "fn": fn, "spin": spin, "kind": kind, "labels": labels, "terms": pure.instantiate(p, labels),
                            "exhaustive": True})
    return out


def run_case(case, cid):
    from qubovert import utils, sim
    cls = pure.classes()[case["kind"]]
    matrix = case["kind"].endswith("Matrix")
    nm = pure.Namer(case["labels"], matrix)
    sc = Fraction(2) ** case.get("scale", 0)
    model = cls({k: (v * float(sc) if sc != 1 else v) for k, v in case["terms"].items()})
    snap = copy.deepcopy(model)
    rec = pure.blank(cid, case["op"])
    rec["spin"] = case["spin"]
    try:
        terms = [(k, common.frac(v) / sc) for k, v in pure.items_of(snap)]       # what TLC sees is the unscaled model
        if case["op"] != "extrema2":
            d0 = common.common_den([common.frac(v) for _, v in terms])
            rec["den"] = d0
            rec["model"] = pure.enc_terms(terms, nm, d0)          # recorded before the call, so it is there if the call raises
        if case["op"] == "extrema2":
            B53 = 2 ** 53

            def limbs(v):
                f = common.frac(v)
                if f.denominator != 1:
                    raise common.Inexact("non-integer bound %r" % (v,))
                c = (int(f) + B53 // 2) // B53
                return [c, int(f) - c * B53]
            rec["model"] = pure.enc_terms([(k, limbs(v)[1]) for k, v in terms], nm, 1)
            rec["model_c"] = pure.enc_terms([(k, limbs(v)[0]) for k, v in terms], nm, 1)
            with warnings.catch_warnings():
                warnings.simplefilter("ignore")
                lo, hi = getattr(utils, case["fn"])(model)
            rec["lo2"], rec["hi2"] = limbs(lo), limbs(hi)
            rec["K"] = sorted({nm(x) for k, _ in terms for x in k}, key=str)
            rec["den"] = 1
            rec["unchanged"] = pure.same(model, snap)
            return rec
        with warnings.catch_warnings():
            warnings.simplefilter("ignore")
            if case["op"] in ("extrema", "bounds"):
                if case["op"] == "bounds":
                    from qubovert import _pcbo
                    cs = [common.frac(v) for k, v in pure.items_of(snap)]
                    up = float(sum(c for c in cs if c > 0) + abs(sum(cs)) + sc)      # a valid (loose) upper bound, at the model's scale
                    dn = float(sum(c for c in cs if c < 0) - abs(sum(cs)) - sc)
                    barg = {"none": None, "nonenone": (None, None), "lo": (dn, None), "hi": (None, up)}[case["bmode"]]
                    lo, hi = _pcbo._get_bounds(model, barg)
                else:
                    lo, hi = getattr(utils, case["fn"])(model)
                lo, hi = common.frac(lo) / sc, common.frac(hi) / sc
                den = common.common_den([common.frac(v) for _, v in terms] + [common.frac(lo), common.frac(hi)])
                rec["lo"], rec["hi"] = common.to_int(common.frac(lo), den), common.to_int(common.frac(hi), den)
                rec["K"] = sorted({nm(x) for k, _ in terms for x in k}, key=str)
            else:
                if case.get("rescaled"):
                    try:
                        sim.anneal_temperature_range(model, case["p0"], case["pf"], case["spin"])
                    except Exception:      # noqa
                        pass
                    model *= case["rescaled"]
                    snap = copy.deepcopy(model)
                    terms = [(k, common.frac(v)) for k, v in pure.items_of(snap)]
                T0, Tf = sim.anneal_temperature_range(model, case["p0"], case["pf"], case["spin"])
                den = common.common_den([common.frac(v) for _, v in terms])
                novars = not any(k for k, v in terms if v)
                rec.update({"t0_ge_tf": bool(T0 >= Tf), "tf_ge_0": bool(Tf >= 0), "novars": novars,
                            "zero_zero": bool(T0 == 0 and Tf == 0)})
        rec["den"] = den
        rec["model"] = pure.enc_terms(terms, nm, den)
        rec["unchanged"] = pure.same(model, snap)
    except common.Inexact as e:
        rec["raised"] = "Inexact: %s" % e
    except Exception as e:                 # noqa
        rec["raised"] = type(e).__name__ + ": " + str(e)[:100]
    return rec


def describe(case):
    return {k: (repr(v) if k in ("labels", "terms") else v) for k, v in case.items() if k != "_index"}


def run(tier, out, replay=None):
    wd = common.workdir("c15")
    rng = common.rng_for(out.seed, "c15")
    try:
        cases = [gen_case(rng) for _ in range(20000 if tier == "thorough" else 3000)]
        if True:     # also when replaying: case indices refer to the concatenated list
            polys, udesc = pure.universe("2f" if tier == "thorough" else "2s", wd)
            ex = exhaustive_cases(polys)
            if tier == "thorough":
                polys3, udesc3 = pure.universe("3", wd)
                ex += exhaustive_cases([p for p in polys3 if any(len(k) == 3 for k in p)], only_general_dict=True)
                udesc = [udesc, udesc3]
            cases = ex + cases
            out.set("exhaustive_universe", udesc)
            out.set("exhaustive_cases", len(ex))
        for i, c in enumerate(cases):
            c["_index"] = i
        if replay:
            cases = [cases[json.load(open(replay))["record"]["case_index"]]]
        recs = [run_case(c, i) for i, c in enumerate(cases)]
        out.add("evaluations", len(recs))
        out.set("distinct_nontrivial", len({json.dumps(describe(c), sort_keys=True) for c in cases if any(k for k in c["terms"])}))
        out.set("rule", "seeded generator: four approximate_*_extrema functions and anneal_temperature_range x dict / every model kind "
                        "(raw dicts with repeated labels) x models with <= 4 variables, degree <= 3, integer or half-integer coefficients, "
                        "offsets, empty and constant models x flip-probability pairs incl. 0; non-trivial = the model has a non-constant term; "
                        "TLC compares lo/hi with the value at EVERY assignment")
        out.sample(describe(cases[0]))
        pure.check(out, wd, recs, cases, "c15",
                   lambda cl, rec, case: "%s %s(%s)" % (cl, case.get("fn", "anneal_temperature_range"), case["kind"]), describe)
        out.assumptions += ["anneal_temperature_range: logarithms are outside TLA+; the harness records the booleans T0 >= Tf, Tf >= 0 and (0,0) and "
                            "TLC only asserts them (direct observation of the API, see DESIGN 5)",
                            "models are freshly constructed (refreshed)"]
    finally:
        common.cleanup(wd)
