"""C12 - annealer dynamics are reproducible Metropolis sweeps.

Design level: spec/Metropolis.tla (TLC, every model on 3 spins, every visiting order): the QUSO kernel's incrementally
maintained energy-change cache is exact, the PUSO kernel's subgraph formula is exact, zero temperature never goes uphill.
Code level: calls are run against the extension rebuilt from /repo with the env-guarded step trace (hook H2); every
logged visit is validated by spec/MetropolisTrace.tla against the exact energy change of the marshalled model, the
Metropolis acceptance rule, the visiting order, and the API results; each call is made twice (reproducibility)."""
import json
import os

from . import anneal_common as ac, cbuild, common
from .tlc import run_tlc

INVS = ["Report", "MarshalOK", "InitialStateUsed", "VisitOrder", "DeltaExact", "AcceptRule", "FinalState", "ApiMatchesKernel",
        "WholeCall", "NoRaise", "Representable"]


def gen_calls(rng, n):
    calls = []
    for cid in range(n):
        fn = rng.choice(["anneal_quso", "anneal_puso"])
        if fn == "anneal_quso":
            kind = rng.choice(["dict", "QUSO", "QUSOMatrix", "QUSOMatrix"])
            maxdeg = 2
        else:
            kind = rng.choice(["dict", "PUSO", "PCSO", "PUSOMatrix", "PUSOMatrix", "QUSO"])
            maxdeg = 2 if kind == "QUSO" else rng.choice([2, 3, 4])
        matrix = kind.endswith("Matrix")
        terms, den, labs = ac.gen_model(rng, True, nmax=rng.choice([1, 2, 3, 4, 5]), maxdeg=maxdeg, matrix=matrix)
        if kind == "dict" and terms and rng.random() < 0.3:
            k = terms[0][0]
            if k and len(k) + 2 <= maxdeg + 2 and maxdeg > 2:
                terms[0][0] = k + [k[0], k[0]]           # repeated label: z^2 = 1
        labels = {}
        if not matrix:
            ls = rng.choice(ac.LABEL_SETS)
            labels = {"L%d" % i: ls[i] for i in range(len(labs))}
        kw = {"schedule": ac.schedule_explicit(rng), "in_order": rng.random() < 0.5, "seed": rng.randint(0, 10 ** 6),
              "num_anneals": rng.choice([1, 2, 3])}
        if rng.random() < 0.5:
            used = sorted({x for k, _ in terms for x in k}, key=str)
            if matrix and used:
                used = list(range(max(used) + 1))
            kw["initial_state"] = [[x, rng.choice([1, -1])] for x in used]
        call = {"id": cid, "fn": fn, "kind": kind, "terms": terms, "den": den, "labels": labels, "kwargs": kw,
                "trace": True, "twice": True}
        if rng.random() < 0.08:
            kw["seed"] = 2 ** 31 - 1 - rng.randint(0, 2)        # the largest seeds a C int holds
        if rng.random() < 0.3:
            call["init_list"] = True             # an initial state over the labels 0..n-1 handed over as a list
        if rng.random() < 0.2:
            call["positional"] = True
        if rng.random() < 0.2:
            call["sched_tuple"] = True
        elif rng.random() < 0.2:
            call["sched_iter"] = True            # the schedule as a one-shot iterator
        if rng.random() < 0.25:
            call["in_order_form"] = rng.choice(["int", "np"])     # in_order as 0/1 or a numpy bool
        if fn == "anneal_quso" and len(terms) >= 3 and rng.random() < 0.12 and "scale_exp" not in call:
            # couplings of very different magnitude (2^25 next to 1): whatever the kernel caches must stay exact
            for t_ in terms:
                if len(t_[0]) == 2:
                    t_[1] *= 2 ** 25
        if rng.random() < 0.2:
            # temperatures written as Python ints
            kw["schedule"] = [int(T_) if float(T_).is_integer() else T_ for T_ in kw["schedule"]]
        if rng.random() < 0.15:
            # real coefficients far below 1: the whole model and the temperatures scaled by 2^-43 or 2^-30 (exact in binary
            # floating point); the record keeps the numerators, so the specification sees the same small integers
            e = rng.choice([43, 30])
            call["den"] = den * 2 ** e
            call["scale_exp"] = -e
            kw["schedule"] = [T * 2.0 ** -e for T in kw["schedule"]]
        if kind != "dict" and terms and rng.random() < 0.2:
            call["warm"] = True
        calls.append(call)
    return calls


def directed_calls(start_id):
    """integer labels first mentioned out of order (the enumeration is a permutation), the initial state handed over as a
    dict or as a list indexed by label, no sweep / frozen sweeps"""
    calls = []
    for fn, kind in (("anneal_quso", "dict"), ("anneal_quso", "QUSO"), ("anneal_puso", "dict"), ("anneal_puso", "PUSO")):
        for sched in ([], [0.0], [0.0, 0.0]):
            for as_list in (True, False):
                terms = [[["L2", "L0"], 1], [["L1"], -1], [["L0"], 2]]
                calls.append({"id": start_id + len(calls), "fn": fn, "kind": kind, "terms": terms, "den": 1,
                              "labels": {"L0": "0", "L1": "1", "L2": "2"},
                              "kwargs": {"schedule": list(sched), "in_order": True, "seed": 5, "num_anneals": 2,
                                         "initial_state": [["L0", 1], ["L1", -1], ["L2", -1]]},
                              "trace": True, "twice": True, "init_list": as_list})
    return calls


def uniformity_calls(rng, start_id, sweeps):
    """long random-order runs at a positive temperature for several sizes (incl. powers of two)"""
    calls = []
    for q, n in enumerate([2, 3, 4, 5, 8]):
        for fn, kind in (("anneal_quso", "QUSOMatrix"), ("anneal_puso", "PUSOMatrix")):
            terms = [[[i], rng.choice([-1, 1])] for i in range(n)] + [[[i, (i + 1) % n], rng.choice([-2, 1, 2])] for i in range(n - 1)]
            if fn == "anneal_puso" and n >= 3:
                terms.append([[0, 1, 2], 1])
            calls.append({"id": start_id + len(calls), "fn": fn, "kind": kind, "terms": terms, "den": 1, "labels": {},
                          "kwargs": {"schedule": [1.5] * sweeps, "in_order": False, "seed": rng.randint(0, 10 ** 6), "num_anneals": 2},
                          "trace": True, "twice": True})
    return calls


def uniform_records(recs, raw_outs):
    """index counts per number of spins (random visiting only) and variate buckets, with Hoeffding bands"""
    import math
    idx = {}
    buckets = [0] * 8
    nu = 0
    for rc, o in zip(recs, raw_outs):
        if rc["inorder"]:
            pass
        for ln in o.get("ev", []):
            p = ln.split()
            if p and p[0] == "S":
                if not rc["inorder"]:
                    idx.setdefault(rc["N"], [0] * rc["N"])[int(p[3])] += 1
                u = float.fromhex(p[6])
                if 0.0 <= u < 1.0:
                    buckets[int(u * 8)] += 1
                    nu += 1
    out = []

    def band(n):
        return int(math.ceil(math.sqrt(n * math.log(2e12) / 2.0)))
    for n, counts in sorted(idx.items()):
        tot = sum(counts)
        if n >= 2 and tot >= 400 * n:
            out.append({"what": "indices N=%d" % n, "counts": counts, "total": tot, "band": band(tot)})
    if nu >= 4000:
        out.append({"what": "variate buckets", "counts": buckets, "total": nu, "band": band(nu)})
    return out


def to_record(call, out, tid):
    den = call["den"]
    names = {}
    for nm, lit in call["labels"].items():
        names[repr(eval(lit))] = nm            # literal of the harness's own label table
    matrix = call["kind"].endswith("Matrix")
    if matrix:
        class _Id(dict):
            def get(self, k, d=None):
                try:
                    return int(k)
                except ValueError:
                    return d
        names = _Id()
    m = out.get("marshal") or {}
    badnum = ""
    mi = ac.marshal_ints(m, den) if m else None
    evs, why = ac.parse_events(out.get("ev", []), den)
    if why:
        badnum = why
    if m and mi is None:
        badnum = badnum or "marshalled coupling not representable"
    if mi is None:
        mi = {"kernel": "none", "N": 0, "h": [], "nn": [], "nb": [], "J": [], "nc": [], "tm": [], "cp": []}
    api = ac.api_to_ints(out.get("api", []), den, names)
    api2 = ac.api_to_ints(out.get("api2", []), den, names)
    keys = [x[0] for x in api[0]["st"]] if api else []
    ev_sts = [e["st"] for e in evs if e["e"] == "E"]
    pi = []
    if m and matrix:
        pi = list(range(mi["N"]))            # Matrix kinds: the property demands the identity (verified by TLC)
    elif m:
        pi = ac.find_pi(ac.kernel_terms_from_marshal(m, den), call["terms"], mi["N"], keys, [a["st"] for a in api], ev_sts)
    rec = {"tid": tid, "id": call["id"], "fn": call["fn"], "kind": call["kind"], "den": den if den < 2 ** 20 else 1,
           "scale_exp": call.get("scale_exp", 0), "matrix": matrix,
           "user": call["terms"], "pi": pi, "inorder": bool(m.get("in_order", 0)), "tpos": [bool(T > 0) for T in m.get("Ts", [])],
           "init": m.get("init", []), "api": api, "api2": api2, "ev2_equal": bool(out.get("ev2_equal", False)),
           "ev": evs, "complete": True, "raised": out.get("raised", "") or out.get("raised2", ""), "badnum": badnum}
    rec["kernel_only"] = False
    sch = call["kwargs"].get("schedule")
    # no sweep at all: every result is the caller's initial state (as the CALLER labelled it)
    rec["zero_sweep_same"] = True
    ini = call["kwargs"].get("initial_state")
    if isinstance(sch, list) and not sch and ini and not rec["raised"]:
        want = sorted([str(k_), int(v_)] for k_, v_ in ini)
        for a_ in out.get("api", []):
            got = sorted([str(names.get(k_, k_)), int(v_)] for k_, v_ in a_["st"])
            if got != want:
                rec["zero_sweep_same"] = False
    # the temperature the kernel used in a step is the caller's (explicit) temperature of that sweep, to the last bit
    sched_vals = None
    if isinstance(sch, list):
        sched_vals = [float(len(sch) - q_) for q_ in range(len(sch))] if call.get("sched_range") else [float(T_) for T_ in sch]
    for e_ in evs:
        if e_["e"] == "S":
            T_ = e_.pop("_T", None)
            e_["t_ok"] = True if (sched_vals is None or not (0 <= e_["t"] < len(sched_vals))) else bool(T_ == sched_vals[e_["t"]])
    rec["has_sched"] = isinstance(sch, list) and bool(m)
    rec["sched_user"] = [bool(T > 0) for T in sch] if isinstance(sch, list) else []
    rec.update(mi)
    return rec


def repo_test_records(so, wd, out):
    """the repository's own annealer tests, run against the fresh build with the kernel trace on (prefix of each call)"""
    import subprocess
    import sys
    outp = os.path.join(wd, "testtrace.ndjson")
    env = dict(os.environ)
    env.update({"QV_SO": so, "QV_TESTTRACE_OUT": outp, "QV_TESTTRACE_MAX": "400", "QV_TESTTRACE_CALLS": "150", "PYTHONPATH": common.VERIF, "PYTHONHASHSEED": "0"})
    p = subprocess.run([sys.executable, "-m", "pytest", "tests/sim/test_anneal.py", "-q", "-p", "harness.qv_test_plugin", "-p", "no:cacheprovider",
                        "-x", "--timeout=900"], cwd=common.REPO, env=env, stdout=subprocess.PIPE, stderr=subprocess.STDOUT, text=True)
    out.set("repo_tests_under_trace", p.stdout.strip().splitlines()[-1][:120] if p.stdout.strip() else "no output")
    recs = []
    if not os.path.exists(outp):
        return recs
    for line in open(outp):
        o = json.loads(line)
        m = o["marshal"]
        mi = ac.marshal_ints(m, 4)
        evs, why = ac.parse_events(o["ev"], 4)
        if mi is None or why or mi["N"] > 40:
            continue
        for e in evs:
            e.pop("u_ok", None)
            if e["e"] == "S":
                e.pop("_T", None)
                e["t_ok"] = True
        N = mi["N"]
        # the hook stops writing step lines after TRACE_MAX but still writes the anneal boundaries: keep the events up to the
        # first anneal whose steps are not all there
        keep, cnt = len(evs), 0
        for q, e in enumerate(evs):
            if e["e"] == "A":
                cnt = 0
            elif e["e"] == "S":
                cnt += 1
            elif e["e"] == "E" and cnt != N * len(m["Ts"]):
                keep = q
                break
        evs = evs[:keep]
        nE = sum(1 for e in evs if e["e"] == "E")
        api = []
        for st, v in list(zip(o["ret_states"], o["ret_values"]))[:max(nE, 0)]:
            val = ac.scaled(ac.hexfrac(v), 4)
            api.append({"st": [[i, s] for i, s in enumerate(st)], "val": val if val is not None else -999999, "spin": True})
        kt = ac.kernel_terms_from_marshal(m, 4)
        tmax = max([e["t"] for e in evs if e["e"] == "S"] + [0]) + 2       # only the temperatures the recorded prefix reaches
        if nE == 0:
            m["Ts"] = m["Ts"][:tmax]
        rec = {"tid": len(recs) + 1, "id": o["id"], "fn": "repo-test", "kind": "kernel", "den": 4, "matrix": True,
               "user": [[sorted(k), v] for k, v in kt.items()], "pi": list(range(N)), "inorder": bool(m["in_order"]),
               "tpos": [bool(T > 0) for T in m["Ts"]], "init": m["init"], "api": api, "api2": api, "ev2_equal": True, "ev": evs,
               "complete": False, "raised": "", "badnum": "", "kernel_only": True, "has_sched": False, "sched_user": [], "zero_sweep_same": True}
        rec.update(mi)
        recs.append(rec)
    return recs


def validate(out, wd, recs, label):
    if not recs:
        return None
    tf = os.path.join(wd, "mt_%s.ndjson" % label)
    common.write_ndjson(tf, recs)
    r = run_tlc("MetropolisTrace", "MetTrace.cfg", env={"QV_TRACES": tf}, cont=True, timeout=2400, name="mettrace_" + label)
    out.add("traces_validated_against_impl", len(recs))
    out.add("kernel_steps_validated", sum(1 for rc in recs for e in rc["ev"] if e["e"] == "S"))
    out.add("states", r.distinct)
    out.add("transitions", r.generated)
    seen = set()
    for v in r.viol_lines:
        clause, tid = v[1].strip('"'), int(v[2])
        if (tid, clause) in seen:
            continue
        seen.add((tid, clause))
        rc = recs[tid - 1]
        pos = int(v[3])
        evd = rc["ev"][pos - 1] if 0 < pos <= len(rc["ev"]) else None
        out.violation(clause, "%s in %s(%s) kernel=%s" % (clause, rc["fn"], rc["kind"], rc["kernel"]),
                      {"event": evd, "position": pos, "call_id": rc["id"], "raised": rc["raised"]}, {"call": rc.get("_call")})
    if r.violated and not r.viol_lines:
        out.violation(r.violated[0], r.violated[0], r.stdout[-1500:], None)
    return r


def run(tier, out, replay=None):
    wd = common.workdir("c12")
    rng = common.rng_for(out.seed, "c12")
    thorough = tier == "thorough"
    try:
        so = cbuild.build("plain")
        if replay:
            call = json.load(open(replay))["record"]["call"]
            calls = [call]
        else:
            # design level
            for cfgname, want_ok in (("Met_quso.cfg", True), ("Met_puso.cfg", True), ("Met_neg.cfg", False)):
                r = run_tlc("MCMetropolis", cfgname, timeout=1200, name="met_" + cfgname[:-4])
                if want_ok:
                    out.add("states", r.distinct)
                    out.add("transitions", r.generated)
                    if not r.ok:
                        out.violation("spec:" + ",".join(r.violated), "spec-level " + cfgname, r.stdout[-2000:])
                else:
                    out.set("negative_config_rejected", r.violated)
                    if "CacheExact" not in r.violated:
                        out.notes.append("VACUITY WARNING: cache factor 2 not rejected")
            calls = gen_calls(rng, 6000 if thorough else 500)
            calls += uniformity_calls(rng, len(calls), 400 if thorough else 120)
            calls += directed_calls(len(calls))
        rc, stdout, outs = ac.run_driver(calls, so, wd, "c12")
        byid = {o["id"]: o for o in outs}
        recs, raws = [], []
        for c in calls:
            o = byid.get(c["id"])
            if o is None:
                out.violation("DriverCrash", "interpreter died in %s(%s)" % (c["fn"], c["kind"]), stdout[-1500:], {"call": c})
                break
            if o.get("raised") or o.get("raised2"):
                out.add("calls_raised_left_to_C11", 1)    # an exception is not a dynamics verdict: C11 judges it
                continue
            if not o.get("marshal"):
                out.add("calls_without_kernel", 1)        # N = 0: nothing for the kernel to do (C11 judges the result)
                continue
            rec = to_record(c, o, len(recs) + 1)
            rec["_call"] = c
            recs.append(rec)
            raws.append(o)
        if recs:
            smp = {k: recs[0][k] for k in ("fn", "kind", "user", "N", "tpos", "inorder", "init", "pi")}
            smp["first_events"] = recs[0]["ev"][:4]
            out.sample(smp)
        # statistics of the logged variates / indices (sanity of the uniformity assumption)
        us = [e for rcd in recs for e in rcd["ev"] if e["e"] == "S"]
        out.set("variates_in_unit_interval", all(e["u_ok"] for e in us))
        out.set("positive_temperature_uphill_steps", sum(1 for e in us if e["tpos"] and e["dE"] > 0))
        out.set("zero_temperature_steps", sum(1 for e in us if not e["tpos"]))
        for rcd in recs:
            for e in rcd["ev"]:
                e.pop("u_ok", None)
        validate(out, wd, [dict((k, v) for k, v in r.items() if k != "_call") | {"_call": None} for r in recs] and
                 [{k: v for k, v in r.items() if k != "_call"} for r in recs], "impl")
        if not replay:
            urecs = uniform_records(recs, raws)
            out.set("uniformity_records", [{k: u[k] for k in ("what", "total", "band")} for u in urecs])
            if urecs:
                uf = os.path.join(wd, "uniform.ndjson")
                common.write_ndjson(uf, urecs)
                ru = run_tlc("CheckUniform", "CheckUniform.cfg", env={"QV_RECS": uf}, cont=True, timeout=300, name="uniform")
                for v in ru.viol_lines:
                    u = urecs[int(v[2]) - 1]
                    out.violation("Uniform", "Uniform " + u["what"], u, None)
        if thorough and not replay:
            trecs = repo_test_records(so, wd, out)
            out.set("repo_test_kernel_calls_traced", len(trecs))
            if trecs:
                validate(out, wd, trecs, "repotests")
        # keep the call for replays
        out.assumptions += [
            "uniformity / independence of the PCG32 stream is assumed (variates only checked to lie in [0,1)); the distributional "
            "claim is reduced to: every observed step is a Metropolis step with the exact dE and the acceptance decided by comparing "
            "the logged variate with exp(-dE/T)",
            "`below` (u < exp(-dE/T)) is computed by the harness with the same libm exp as the kernel",
            "the hook peeks the variate from a copy of the generator state: one variate per uphill proposal at positive temperature"]
    finally:
        common.cleanup(wd)
