"""C06 - logical constraint methods penalise exactly the violating assignments (16 PCBO methods)."""
import json

from . import c02, common, constraints as cs
from .tlc import run_tlc


def operand(rng, labels):
    """(how it is passed, python value, its polynomial as the harness defines it)"""
    k = rng.random()
    l1, l2 = rng.sample(labels, 2)
    if k < 0.55:
        return ("label", l1, {(l1,): 1})
    if k < 0.70:
        poly = {(): 1, (l1,): -1}                      # NOT l1
    elif k < 0.85:
        poly = {(l1, l2): 1}                           # l1 AND l2
    else:
        poly = {(l1,): 1, (l2,): 1, (l1, l2): -1}      # l1 OR l2
    return (rng.choice(["dict", "pubo"]), poly, poly)


def gen_scenarios(rng, n):
    scens = []
    for s in range(n):
        pl = list(rng.choice(common.LABEL_POOLS))
        rng.shuffle(pl)
        labels = pl[:6]
        steps = []
        for _ in range(rng.choice([1, 1, 1, 2])):
            gate = rng.choice(cs.GATES)
            geq = rng.random() < 0.5
            if gate in ("BUFFER", "NOT"):
                n_ops = 1
            else:
                n_ops = rng.choice([2, 2, 3, 3, 4, 5, 6, 7, 8, 9]) if geq else rng.choice([1, 2, 2, 3, 3, 4, 5, 6, 7, 8, 9])
            ops = [operand(rng, labels) for _ in range(n_ops)]
            a = operand(rng, labels) if geq else None
            steps.append({"mode": "gate", "gate": gate, "geq": geq, "a": a, "ops": ops, "lam": rng.choice([1, 2, 3, 0.5])})
        # a model that already has terms on the operands' monomials (an objective): what a gate method adds must be added
        objective = None
        if rng.random() < 0.4:
            objective = cs.gen_poly(rng, labels[:4], maxdeg=2, maxterms=4, coefs=(-2, 1, 3))
        scens.append({"labels": labels, "steps": steps, "objective": objective, "arg_form": "dict",
                      "fork": rng.choice([None, None, None, "copy", "add0", "mul1", "ctor", "neg"])})
    return scens


def directed_scenarios():
    """gate constraints whose polynomial has the shape  z - x*y  (the special path of the equality method), on a model that
    already holds terms on exactly those monomials - an objective, or an earlier constraint"""
    a, b, c = "a", "b", "c"
    labels = [a, b, c, "d", "e", "f"]
    prod = {(b, c): 1}
    objective = {(a,): 2, (b, c): -1, (a, b): 3, (a, c): 1, (): 1}
    out = []
    for obj in (objective, None):
        for pre in (None, {"mode": "gate", "gate": "NOT", "geq": False, "a": None, "ops": [("label", a, {(a,): 1})], "lam": 2},
                    {"mode": "gate", "gate": "AND", "geq": False, "a": None, "ops": [("label", a, {(a,): 1}), ("label", b, {(b,): 1})], "lam": 1}):
            if obj is None and pre is None:
                continue
            for gate, ops in (("BUFFER", [("dict", prod, prod)]), ("BUFFER", [("pubo", prod, prod)]),
                              ("AND", [("label", b, {(b,): 1}), ("label", c, {(c,): 1})])):
                for lam in (1, 0.5):
                    steps = ([pre] if pre else []) + [{"mode": "gate", "gate": gate, "geq": True, "a": ("label", a, {(a,): 1}), "ops": ops, "lam": lam}]
                    out.append({"labels": labels, "steps": steps, "objective": obj, "arg_form": "dict", "fork": None})
    # the same label more than once among the arguments (also as the output)
    la = lambda x: ("label", x, {(x,): 1})      # noqa
    for gate in ("AND", "OR", "XOR", "NAND", "NOR", "XNOR"):
        for args in ((a, b, b), (a, a, b), (a, b, a), (b, b, b)):
            for geq in (True, False):
                for lam in (1, 0.5):
                    st = {"mode": "gate", "gate": gate, "geq": geq, "a": la(args[0]) if geq else None,
                          "ops": [la(x) for x in (args[1:] if geq else args)], "lam": lam}
                    out.append({"labels": labels, "steps": [st], "objective": None, "arg_form": "dict", "fork": None})
    return out


def describe(sc):
    return {"labels": [repr(l) for l in sc["labels"]],
            "steps": [{"gate": ("eq_" if st["geq"] else "") + st["gate"], "lam": st["lam"],
                       "a": repr(st["a"][:2]) if st["a"] else None, "ops": [repr(o[:2]) for o in st["ops"]]} for st in sc["steps"]]}


def run(tier, out, replay=None):
    wd = common.workdir("c06")
    rng = common.rng_for(out.seed, "c06")
    thorough = tier == "thorough"
    try:
        if not replay:
            cfgname = "Cons_gate_full.cfg" if thorough else "Cons_gate_quick.cfg"
            r = run_tlc("MCConstraints", cfgname, timeout=3400, name="mccons_gate")
            out.add("states", r.distinct)
            out.add("transitions", r.generated)
            if not r.ok:
                out.violation("spec:" + ",".join(r.violated), "spec-level gates " + ",".join(r.violated), r.stdout[-2500:])
        scens = directed_scenarios() + gen_scenarios(rng, 5000 if thorough else 600)
        if replay:
            scens = [scens[json.load(open(replay))["record"]["seed_scenario"]]]
        recs, owners = c02.run_scenarios(scens, False)
        out.set("gate_calls", len(recs))
        out.set("methods_covered", sorted({("eq_" if r["geq"] else "") + r["gate"] for r in recs}))
        if recs:
            out.sample(describe(scens[0]))
            c02.describe = describe
            c02.check_records(out, wd, recs, owners, scens, "c06", "c06")
        out.assumptions += ["operands are labels of mixed hashable types or boolean expressions (negation, conjunction, disjunction) passed as "
                            "dict / PUBO whose polynomial the harness defines itself; arities up to 9 over 6 labels (labels may repeat among operands)"]
    finally:
        common.cleanup(wd)
