"""C01 - degree reduction never undercuts the model and is exact on consistent ancillas.

Design: spec/Reduce.tla (TLC, every model / term order / pair choice within bounds; invariants at every step),
spec/ReduceLocal.tla (the local lemma).  Code: (a) truth tables - spec/CheckReduce.tla judges the forms returned by the real
to_qubo / to_quso / to_pubo(d) / to_puso(d) of PUBO, PCBO, PUSO, PCSO on every assignment of variables and ancillas;
(b) certificates - hook H1 records every substitution of the real _reduce_degree, spec/ReduceTrace.tla validates them step
by step for models too large for truth tables."""
import itertools
import json
import os
import warnings

from . import common
from .tlc import run_tlc

MAXV = 9          # truth tables for forms with at most this many variables (model variables + ancillas)
TARGETS = [("qubo", False, 2, "QUBOMatrix"), ("quso", True, 2, "QUSOMatrix"), ("pubo", False, None, "PUBOMatrix"),
           ("puso", True, None, "PUSOMatrix")]


def gen_case(rng, big=False):
    src = rng.choice(["PUBO", "PCBO"]) if big else rng.choice(["PUBO", "PCBO", "PUSO", "PCSO"])
    pool = list(rng.choice(common.LABEL_POOLS))
    rng.shuffle(pool)
    nlab = rng.randint(5, 6) if big else rng.randint(3, 5)
    labels = pool[:nlab]
    if rng.random() < 0.2:
        # labels that ARE the integers 0..n-1, met in another order (the mapping is a permutation, not the identity)
        labels = list(range(nlab))
        rng.shuffle(labels)
    terms = {}
    hi = rng.randint(3, 8) if big else rng.randint(1, 2)
    maxdeg = min(nlab, 5 if big else 4)
    for _ in range(hi):
        d = rng.randint(3, maxdeg)
        k = rng.sample(labels, d)
        terms[tuple(k)] = rng.choice([-3, -2, -1, 1, 2, 3])
    for _ in range(rng.randint(0, 3)):
        d = rng.randint(0, 2)
        k = rng.sample(labels, d)
        terms[tuple(k)] = rng.choice([-2, -1, 1, 2])
    den = 1
    if not big and rng.random() < 0.2:
        # coefficients that are not whole numbers: halves and quarters such as 2.5 or 2.25 (the default penalty must still dominate)
        den = rng.choice([2, 2, 4])
        for k in list(terms):
            if len(k) >= 3:
                terms[k] = rng.choice([-9, -5, -3, 3, 5, 9, 11])
    if not big and rng.random() < 0.06:
        # degenerate models: a constant only, a single variable, nothing at all
        terms = rng.choice([{(): 3}, {(labels[0],): -2, (): 1}, {}, {(labels[0], labels[1]): 2}])
    if big:
        tgt = rng.choice([TARGETS[0], TARGETS[2]])
    else:
        tgt = rng.choice(TARGETS)
    deg = tgt[2] if tgt[2] is not None else rng.choice([2, 3])
    lam_mode = rng.choice(["default", "default", "const_big", "const_small", "abs", "absplus"])
    scale = 0
    if not big and rng.random() < 0.12:
        # real coefficients far below 1: the whole model (and a constant penalty) scaled by 2^-40, exact in binary floating
        # point; the penalty must then be one that scales with the model
        scale = -40
        lam_mode = rng.choice(["abs", "const_big"])
        den = 1
    pairs = rng.choice(["none", "none", "present", "unknown"])
    # what happened to the object before the judged conversion (the statement covers every model in refreshed state,
    # however it got there): nothing / another conversion / conversion then a new enumeration / conversion, edit, refresh
    history = rng.choice(["fresh", "fresh", "fresh", "converted", "remapped", "edited"])
    hist = {"kind": history, "first": rng.choice(["qubo", "quso", "pubo", "puso"]), "perm_seed": rng.randint(0, 10 ** 6)}
    return {"src": src, "labels": labels, "terms": terms, "den": den, "target": tgt[0], "spin_tgt": tgt[1], "deg": deg,
            "expect_type": tgt[3], "lam_mode": lam_mode, "pairs": pairs, "history": hist, "scale": scale}


def run_case(case, cid, want_cert):
    import qubovert as qv
    from qubovert import _pubo
    os.environ[common.GUARD] = "1"
    cls = getattr(qv, case["src"])
    den = case["den"]
    from fractions import Fraction
    sc = Fraction(2) ** case.get("scale", 0)
    fsc = float(sc)
    model = cls({k: ((v / den if den != 1 else v) * (fsc if sc != 1 else 1)) for k, v in case["terms"].items()})
    hist = case.get("history", {"kind": "fresh"})
    if hist["kind"] != "fresh":
        import random
        hr = random.Random(hist["perm_seed"])
        with warnings.catch_warnings():
            warnings.simplefilter("ignore")
            try:
                getattr(model, "to_" + hist["first"])(**({"deg": 2} if hist["first"] in ("pubo", "puso") else {}))
            except Exception:      # noqa  (the judged call below reports what it raises itself)
                pass
        if hist["kind"] == "remapped":
            vs = list(model.mapping)
            perm = list(range(len(vs)))
            hr.shuffle(perm)
            model.set_mapping(dict(zip(vs, perm)))
        elif hist["kind"] == "edited":
            ks = list(model)
            if ks:
                k0 = hr.choice(ks)
                model[k0] -= model[k0]                      # a term cancels in place
            labs = case["labels"]
            model[tuple(hr.sample(labs, min(3, len(labs))))] += hr.choice([-2, 1, 3]) * (fsc if sc != 1 else 1)
            model.refresh()
    spin_src = case["src"] in ("PUSO", "PCSO")
    labels = case["labels"]
    names = {(type(l).__name__, l): "L%d" % i for i, l in enumerate(labels)}

    def nm(l):
        return names.get((type(l).__name__, l), "?%r" % (l,))
    lam_val = 0
    kw = {}
    if case["lam_mode"] == "const_big":
        kw["lam"] = 64 * (fsc if sc != 1 else 1)
        lam_val = 64
    elif case["lam_mode"] == "const_small":
        kw["lam"] = 1
        lam_val = 1
    elif case["lam_mode"] == "abs":
        kw["lam"] = lambda v: abs(v)
    elif case["lam_mode"] == "absplus":
        kw["lam"] = lambda v: 2 * abs(v) + 0.5
    if case["pairs"] == "present":
        ks = [k for k in case["terms"] if len(k) >= 3]
        if ks:
            kw["pairs"] = {(ks[0][0], ks[0][1])}
    elif case["pairs"] == "unknown":
        kw["pairs"] = {(labels[0], "no-such-label")}
    if case["target"] in ("pubo", "puso"):
        kw["deg"] = case["deg"]
    before = dict(model)
    rec = {"id": cid, "src": case["src"], "spin_src": spin_src, "target": case["target"], "spin_tgt": case["spin_tgt"],
           "deg": case["deg"], "lam_mode": "const" if case["lam_mode"].startswith("const") else case["lam_mode"],
           "lam_val": 0, "expect_type": case["expect_type"], "M": [], "map": [], "n": 0, "D": [], "dtype": "", "den": 1, "scale": 1,
           "conv": [], "conv_complete": False, "dvars": [], "raised": "", "unchanged": True}
    cert = None
    try:
        with warnings.catch_warnings():
            warnings.simplefilter("ignore")
            if cid % 3 == 0:
                # the conversion is made twice, the first result is scribbled into in between (results must be independent)
                from . import pure
                try:
                    pure.scribble(getattr(model, "to_" + case["target"])(**kw))
                except Exception:      # noqa  (the judged call reports what it raises)
                    pass
            del _pubo._VERIF_CERTS[:]
            D = getattr(model, "to_" + case["target"])(**kw)
        certs = list(_pubo._VERIF_CERTS)
        del _pubo._VERIF_CERTS[:]
        dterms = [(tuple(k), common.frac(v) / sc) for k, v in dict.items(D)]          # what TLC sees is the unscaled model
        mterms = [(tuple(k), common.frac(v) / sc) for k, v in before.items()]
        fr = [common.frac(v) for _, v in dterms] + [common.frac(v) for _, v in mterms] + [common.frac(lam_val)]
        d = common.common_den(fr)
        rec["den"] = d
        rec["M"] = [[[nm(x) for x in k], common.to_int(common.frac(v), d)] for k, v in mterms]
        rec["D"] = common.enc_terms_int(dterms, d)
        rec["lam_val"] = lam_val * d
        rec["map"] = [[nm(k), int(v)] for k, v in model.mapping.items()]
        rec["n"] = int(model.num_binary_variables)
        rec["dtype"] = type(D).__name__
        rec["unchanged"] = dict(model) == before
        dvars = sorted({x for k, _ in dterms for x in k} | set(range(rec["n"])))
        if len(dvars) <= MAXV and all(isinstance(x, int) for x in dvars):
            conv = []
            ok = True
            for bits in itertools.product([0, 1], repeat=len(dvars)):
                sol = {v: ((1 - 2 * b) if case["spin_tgt"] else b) for v, b in zip(dvars, bits)}
                # every documented way of handing the assignment over: dict / list / tuple, the spin flag given or left to
                # the library's detection (only where the assignment is unambiguous: a spin assignment with a -1 somewhere,
                # any boolean assignment)
                mode = (len(conv) + cid) % 4
                dense = dvars == list(range(len(dvars)))
                arg = sol
                if mode == 2 and dense:
                    arg = [sol[v] for v in dvars]
                elif mode == 3 and dense:
                    arg = tuple(sol[v] for v in dvars)
                # unambiguous: a spin assignment holding a -1, a boolean assignment holding a 0, or the all-ones assignment
                # where the class's documented default (spin for PUSO/PCSO, boolean for PUBO/PCBO) is the form's own domain
                unamb = any(bits) if case["spin_tgt"] else not all(bits)
                detect = mode in (1, 3) and (unamb or case["spin_tgt"] == spin_src)
                try:
                    cs = model.convert_solution(arg) if detect else model.convert_solution(arg, spin=case["spin_tgt"])
                    on = [nm(k) for k, v in cs.items() if v == (-1 if spin_src else 1)]
                    if any(v not in ((1, -1) if spin_src else (0, 1)) for v in cs.values()):
                        on = ["?bad-value"]
                except Exception as e:       # noqa
                    on = ["?raised %s" % type(e).__name__]
                conv.append([[v for v, b in zip(dvars, bits) if b], on])
            rec["conv"], rec["conv_complete"], rec["dvars"] = conv, ok, dvars
        rec["nvars_form"] = len(dvars)
        if want_cert and len(certs) == 1 and case["src"] in ("PUBO", "PCBO") and case["target"] in ("qubo", "pubo"):
            c0 = certs[0]
            cd = common.common_den(fr + [(common.frac(st[4]) / sc) for t in c0["terms"] for st in t["steps"]] + [(common.frac(t["v"]) / sc) for t in c0["terms"]])
            cert = {"id": cid, "n": int(c0["n"]), "deg": int(c0["deg"]),
                    "M": [[[int(model.mapping[x]) for x in k], common.to_int(common.frac(v), cd)] for k, v in mterms],
                    "D": common.enc_terms_int(dterms, cd),
                    "cert": [{"key0": [int(x) for x in t["key0"]], "v": common.to_int((common.frac(t["v"]) / sc), cd),
                              "steps": [[int(st[0]), int(st[1]), int(st[2]), common.to_int((common.frac(st[4]) / sc), cd)] for st in t["steps"]],
                              "key": [int(x) for x in t["key"]]} for t in c0["terms"]],
                    "expect_dominates": case["lam_mode"] != "const_small"}
    except common.Inexact as e:
        rec["raised"] = "Inexact: %s" % e
    except Exception as e:                          # noqa
        rec["raised"] = type(e).__name__ + ": " + str(e)[:100]
    return rec, cert


def describe(case):
    return {k: (repr(v) if k in ("labels", "terms") else v) for k, v in case.items()}


def run(tier, out, replay=None):
    wd = common.workdir("c01")
    rng = common.rng_for(out.seed, "c01")
    thorough = tier == "thorough"
    global MAXV
    MAXV = 11 if thorough else 10
    try:
        if not replay:
            cfgs = [("Reduce_quick.cfg", True), ("Reduce_neg.cfg", False)]
            if thorough:
                cfgs += [("Reduce_abs.cfg", True), ("Reduce_full.cfg", True), ("Reduce_deg3.cfg", True)]
            for cfgname, want_ok in cfgs:
                r = run_tlc("Reduce", cfgname, timeout=3000, name="reduce_" + cfgname[:-4])
                if want_ok:
                    out.add("states", r.distinct)
                    out.add("transitions", r.generated)
                    if not r.ok:
                        out.violation("spec:" + ",".join(r.violated), "spec-level %s" % cfgname, r.stdout[-2500:])
                else:
                    out.set("negative_config_rejected", r.violated)
                    if "NeverUndercut" not in r.violated:
                        out.notes.append("VACUITY WARNING: penalty-only-on-first-use not rejected")
            rl = run_tlc("ReduceLocal", "ReduceLocal.cfg", timeout=300, name="reducelocal")
            out.set("reduce_local_lemma", "holds" if rl.completed and not rl.errors else "FAILED")
            if not rl.completed:
                out.violation("spec:ReduceLocal", "spec-level ReduceLocal", rl.stdout[-1500:])
        ncases = 4000 if thorough else 450
        nbig = 600 if thorough else 80
        cases = [gen_case(rng) for _ in range(ncases)] + [gen_case(rng, big=True) for _ in range(nbig)]
        if replay:
            cases = [cases[json.load(open(replay))["record"]["case_index"]]]
        recs, certs, owners, cowners = [], [], [], []
        for i, case in enumerate(cases):
            rec, cert = run_case(case, i, True)
            if rec["raised"] or rec.get("nvars_form", 99) <= MAXV:
                recs.append(rec)
                owners.append(i)
            if cert is not None:
                certs.append(cert)
                cowners.append(i)
        out.set("forms_with_truth_tables", len(recs))
        out.set("certificates", len(certs))
        out.set("certificate_substitutions", sum(len(t["steps"]) for c in certs for t in c["cert"]))
        out.set("largest_form_by_certificate_vars", max([c["n"] + sum(1 for t in c["cert"] for s in t["steps"]) for c in certs] or [0]))
        if cases:
            out.sample(describe(cases[0]))
        if recs:
            rf = os.path.join(wd, "recs.ndjson")
            common.write_ndjson(rf, recs)
            r = run_tlc("CheckReduce", "CheckReduce.cfg", env={"QV_RECS": rf}, cont=True, timeout=3000, name="checkreduce")
            out.add("states", r.distinct)
            out.add("transitions", r.generated)
            out.add("traces_validated_against_impl", len(recs))
            seen = set()
            for v in r.viol_lines:
                clause, idx = v[1].strip('"'), int(v[2])
                rec, case = recs[idx - 1], cases[owners[idx - 1]]
                if (idx, clause) in seen:
                    continue
                seen.add((idx, clause))
                out.violation(clause, "%s %s.to_%s lam=%s" % (clause, rec["src"], rec["target"], rec["lam_mode"]),
                              {"case": describe(case), "raised": rec["raised"], "D": rec["D"][:12]}, {"case_index": owners[idx - 1]})
            if r.violated and not r.viol_lines:
                out.violation(r.violated[0], r.violated[0], r.stdout[-1500:], None)
        if certs:
            tf = os.path.join(wd, "certs.ndjson")
            common.write_ndjson(tf, certs)
            r = run_tlc("ReduceTrace", "ReduceTrace.cfg", env={"QV_TRACES": tf}, cont=True, timeout=3000, name="reducetrace")
            out.add("states", r.distinct)
            out.add("transitions", r.generated)
            out.add("traces_validated_against_impl", len(certs))
            seen = set()
            for v in r.viol_lines:
                clause, tid = v[1].strip('"'), int(v[2])
                case = cases[cowners[tid - 1]]
                if (tid, clause) in seen:
                    continue
                seen.add((tid, clause))
                out.violation(clause, "certificate %s %s.to_%s" % (clause, case["src"], case["target"]),
                              {"case": describe(case), "cert": certs[tid - 1]["cert"][:4]}, {"case_index": cowners[tid - 1]})
            if r.violated and not r.viol_lines:
                out.violation(r.violated[0], r.violated[0], r.stdout[-1500:], None)
        out.assumptions += ["coefficients are small integers or halves (exact arithmetic); truth tables for forms with <= 10 variables incl. ancillas, "
                            "larger forms only through certificates + the local lemma",
                            "models are in refreshed bookkeeping state (freshly constructed), as the statement requires",
                            "the antecedent 'penalty >= |coefficient| of the reduced term' is computed by the specification from the boolean form of M"]
    finally:
        common.cleanup(wd)
