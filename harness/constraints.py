"""Runs scenarios of constraint calls on real PCBO / PCSO objects and records what spec/CheckConstraints.tla needs.
Shared by C02 (PCBO comparisons), C03 (PCSO comparisons), C06 (logic gates) and C16 (symbolic weights)."""
import itertools
import re
import warnings
from fractions import Fraction

from . import common

_ANC = re.compile(r"^__a(\d+)$")
RELS = ["eq", "ne", "lt", "le", "gt", "ge"]
GATES = ["AND", "NAND", "OR", "NOR", "XOR", "XNOR", "BUFFER", "NOT"]
NOBOUND = 99999


def is_anc(lab):
    return isinstance(lab, str) and bool(_ANC.match(lab))


class Names:
    """python label <-> record name; ancillas keep their own name"""

    def __init__(self, py_labels):
        self.py = list(py_labels)
        self.name_of = {(type(l).__name__, l): "L%d" % i for i, l in enumerate(py_labels)}

    def name(self, lab):
        k = (type(lab).__name__, lab)
        if k in self.name_of:
            return self.name_of[k]
        if is_anc(lab):
            return lab
        return "?%r" % (lab,)


def true_extrema(P, spin):
    """brute force min / max of an integer polynomial {key tuple: coef}"""
    labs = sorted({x for k in P for x in k}, key=lambda x: (str(type(x)), str(x)))
    lo = hi = None
    for bits in itertools.product([0, 1], repeat=len(labs)):
        asg = dict(zip(labs, bits))
        v = 0
        for k, c in P.items():
            t = c
            for x in k:
                t *= ((1 - 2 * asg[x]) if spin else asg[x])
            v += t
        lo = v if lo is None else min(lo, v)
        hi = v if hi is None else max(hi, v)
    return (lo or 0), (hi or 0)


def gen_poly(rng, labels, maxdeg=2, maxterms=4, coefs=(-3, -2, -1, 1, 2, 3), offset_p=0.6):
    keys = []
    for d in range(1, maxdeg + 1):
        keys += list(itertools.combinations(labels, d))
    rng.shuffle(keys)
    P = {}
    for k in keys[:rng.randint(1, min(maxterms, len(keys)))]:
        kk = list(k)
        rng.shuffle(kk)
        P[tuple(kk)] = rng.choice(coefs)
    if rng.random() < offset_p:
        P[()] = rng.choice([-3, -2, -1, 1, 2])
    return P


SPECIAL_SHAPES = ["and", "sum_le_1", "unary", "or", "x_le_y", "knapsack", "knapsack", "and_image", "and_like", "gate_like", "gate_like"]


def special_poly(rng, labels, shape):
    """polynomials that trigger the special-case branches of the comparison methods"""
    ls = list(labels)
    rng.shuffle(ls)
    if shape == "and" and len(ls) >= 3:                 # a - b c  (eq: AND gadget)
        v = rng.choice([1, -1, 2])
        return {(ls[0],): v, (ls[1], ls[2]): -v}, "eq"
    if shape == "sum_le_1" and len(ls) >= 2:             # x + y (+ z) - 1 <= 0
        n = rng.randint(2, min(3, len(ls)))
        P = {(l,): 1 for l in ls[:n]}
        P[()] = -1
        return P, "le"
    if shape == "unary" and len(ls) >= 2:                # P_wo_offset >= 0 with offset -k : unary slack when log_trick=False
        P = {(ls[0],): 1, (ls[1],): 2, (): -rng.choice([1, 2])}
        return P, "le"
    if shape == "and_image" and len(ls) >= 3:           # spin image of  c1 x_a - c2 x_b x_c  (an AND gadget only if c1 = c2)
        cc, d = rng.choice([1, 2, -1]), rng.choice([1, 2, 3, -1, -2])
        return {(ls[1], ls[2]): cc, (ls[1],): -cc, (ls[2],): -cc, (ls[0],): d, (): cc - d}, rng.choice(["eq", "eq", "ne", "le"])
    if shape == "and_like" and len(ls) >= 3:            # c1 a - c2 b c with c1 != c2
        c1, c2 = rng.choice([(2, 1), (1, 2), (3, 1), (-2, -1), (-1, -3)])
        return {(ls[0],): c1, (ls[1], ls[2]): -c2}, rng.choice(["eq", "eq", "le", "ge"])
    if shape == "gate_like" and len(ls) >= 3:            # a gate identity z = G(x, y) or a look-alike with the product on the wrong pair
        z, x, y = ls[:3]
        forms = [{(z,): 1, (x,): -1, (y,): -1, (x, y): 1}, {(z,): 1, (x,): -1, (y,): -1, (z, x): 1},
                 {(z,): 1, (): -1, (x, y): 1}, {(z,): 1, (): -1, (z, x): 1},
                 {(z,): 1, (): -1, (x,): 1, (y,): 1, (x, y): -1}, {(z,): 1, (): -1, (x,): 1, (y,): 1, (z, y): -1},
                 {(z,): 1, (x, y): -1}, {(z,): 1, (z, x): -1}]
        sc = rng.choice([1, 1, -1, 2])
        return {k: sc * v for k, v in rng.choice(forms).items()}, rng.choice(["eq", "eq", "eq", "ne", "le"])
    if shape == "knapsack" and len(ls) >= 2:             # weighted sum within a capacity (weights above 1, capacity above the term count)
        n = rng.randint(2, min(3, len(ls)))
        w = [rng.choice([1, 2, 3, 4]) for _ in range(n)]
        cap = rng.randint(1, min(sum(w), 8))
        P = {(l,): wi for l, wi in zip(ls[:n], w)}
        P[()] = -cap
        if rng.random() < 0.35:
            return {k: -v for k, v in P.items()}, "ge"
        return P, rng.choice(["le", "le", "lt"])
    if shape == "or" and len(ls) >= 2:                   # 1 - x - y <= 0
        return {(ls[0],): -1, (ls[1],): -1, (): 1}, "le"
    if shape == "x_le_y" and len(ls) >= 2:               # x - y <= 0
        return {(ls[0],): 1, (ls[1],): -1}, "le"
    return gen_poly(rng, labels), rng.choice(RELS)


def choose_bounds(rng, P, spin, kind=None):
    lo, hi = true_extrema(P, spin)
    kind = kind or rng.choice(["none", "none", "exact", "loose", "lo", "hi", "nonenone"])
    if kind == "none":
        return None, [NOBOUND, NOBOUND], kind
    if kind == "nonenone":
        return (None, None), [NOBOUND, NOBOUND], kind
    if kind == "exact":
        return (lo, hi), [lo, hi], kind
    if kind == "loose":
        a, b = lo - rng.randint(0, 2), hi + rng.randint(0, 2)
        return (a, b), [a, b], kind
    if kind == "lo":
        return (lo, None), [lo, NOBOUND], kind
    return (None, hi + 1), [NOBOUND, hi + 1], kind


def raw_terms(model):
    return [(tuple(k), v) for k, v in dict.items(model)]


def snapshot_model(H, names):
    terms = raw_terms(H)
    vs = list(H.variables)
    return {"terms": terms, "anc": H.num_ancillas, "anc_labels": sorted(names.name(v) for v in vs if is_anc(v)),
            "anc_indices": sorted(int(_ANC.match(v).group(1)) for v in vs if is_anc(v))}


def valid_table(H, labels, spin, cap=10):
    if len(labels) > cap:
        return [], False
    table = []
    for bits in itertools.product([0, 1], repeat=len(labels)):
        sol = {l: ((1 - 2 * b) if spin else b) for l, b in zip(labels, bits)}
        try:
            ok = bool(H.is_solution_valid(sol))
        except Exception:
            return [], False
        table.append(([l for l, b in zip(labels, bits) if b], ok))
    return table, True


def encode_record(rec, names):
    """python-level record -> integers over one denominator, labels -> names"""
    nums = []
    for key in ("before", "after", "P", "ga"):
        nums += [common.frac(v) for _, v in rec[key]]
    for ops in rec["ops"]:
        nums += [common.frac(v) for _, v in ops]
    for _, t in rec["cons"]:
        nums += [common.frac(v) for _, v in t]
    lamf = common.frac(rec["lam"])
    nums.append(lamf)
    den = common.common_den(nums)

    def enc(ts):
        return [[[names.name(x) for x in k], common.to_int(common.frac(v), den)] for k, v in ts]
    def enc1(ts):          # gate operands are 0/1-valued polynomials: never scaled
        return [[[names.name(x) for x in k], common.to_int(common.frac(v), 1)] for k, v in ts]
    out = dict(rec)
    for key in ("before", "after", "P"):
        out[key] = enc(rec[key])
    out["ga"] = enc1(rec["ga"])
    out["ops"] = [enc1(o) for o in rec["ops"]]
    out["cons"] = [[r, enc(t)] for r, t in rec["cons"]]
    out["lam"] = common.to_int(lamf, den)
    out["den"] = den
    out["X"] = [names.name(x) for x in rec["X"]]
    out["valid"] = [[[names.name(x) for x in ones], ok] for ones, ok in rec["valid"]]
    return out


def blank_record():
    return {"mode": "cmp", "spin": False, "rel": "eq", "gate": "AND", "geq": False, "ga": [], "ops": [], "P": [], "lam": 1,
            "lt": True, "bounds": [NOBOUND, NOBOUND], "before": [], "after": [], "X": [], "anc_before": 0, "anc_after": 0,
            "anc_labels_before": [], "anc_labels_after": [], "anc_indices_after": [], "warned_unsat": False,
            "warned_always": False, "cons": [], "valid": [], "valid_complete": False, "unchanged": True, "raised": ""}


def fork_and_abuse(H, kind, label, spin):
    """derive another model from H (copy / arithmetic / constructor) and add constraints of every recorded relation to THAT
    model; H itself must not notice (its recorded constraints and is_solution_valid are observed afterwards)"""
    Hf = {"copy": lambda: H.copy(), "add0": lambda: H + 0, "mul1": lambda: H * 1, "ctor": lambda: type(H)(H),
          "neg": lambda: -(-H)}[kind]()
    with warnings.catch_warnings():
        warnings.simplefilter("ignore")
        for rel in list(H.constraints):
            if rel in RELS:
                getattr(Hf, "add_constraint_%s_zero" % rel)({(label,): 1, (): -1})


def rebound(H, kind):
    """the model the scenario continues with: H itself or an equal model derived from it (constraints, ancilla counter and
    terms carry over by C14 / C19, so the following constraints must behave as if nothing had happened)"""
    if kind == "refresh":
        H.refresh()
        return H
    if kind == "imul1":
        H *= {(): 1}            # an in-place product with the constant one (clear + rebuild inside the class)
        return H
    return {"copy": lambda: H.copy(), "add0": lambda: H + 0, "mul1": lambda: 1 * H, "ctor": lambda: type(H)(H),
            "neg": lambda: -(-H)}[kind]()


def run_scenario(scen_id, steps, spin, py_labels, first_id, objective=None, arg_form="dict", fork=None, rebind=None):
    """steps: list of dicts {mode:'cmp', P, rel, lam, lt, bounds(py), bounds_rec} or {mode:'gate', gate, geq, a, ops, lam}
    returns encoded records"""
    import qubovert as qv
    names = Names(py_labels)
    H = (qv.PCSO if spin else qv.PCBO)(objective or {})
    problem_labels = [l for l in H.variables if not is_anc(l)]
    recs = []
    for si, st in enumerate(steps):
        rec = blank_record()
        rec.update({"id": first_id + si, "scen": scen_id, "step": si, "mode": st["mode"], "spin": spin, "lam": st["lam"]})
        if rebind and si > 0:
            try:
                H = rebound(H, rebind)
            except Exception:       # noqa  (a failing derivation is C05 / C14 business; the scenario goes on with H)
                pass
        before = snapshot_model(H, names)
        wunsat = walways = False
        raised = ""
        unchanged = True
        try:
            with warnings.catch_warnings(record=True) as ws:
                warnings.simplefilter("always")
                if st["mode"] == "cmp":
                    P = dict(st["P"])
                    if arg_form == "model":
                        arg = (qv.PUSO if spin else qv.PUBO)(P)
                    elif arg_form == "pc":
                        arg = (qv.PCSO if spin else qv.PCBO)(P)
                    else:
                        arg = dict(P)
                    arg_before = dict(arg)
                    kw = {"lam": st["lam"], "bounds": st["bounds"]}
                    if st["rel"] != "eq":
                        kw["log_trick"] = st["lt"]
                    getattr(H, "add_constraint_%s_zero" % st["rel"])(arg, **kw)
                    unchanged = dict(arg) == arg_before and type(arg) is type(arg)
                    # what the caller does with its own polynomial afterwards must not reach the model
                    arg[()] = arg.get((), 0) + 7
                    arg[("__poked__",)] = 1
                    rec.update({"rel": st["rel"], "lt": st["lt"], "bounds": st["bounds_rec"], "P": list(P.items())})
                    for l in {x for k in P for x in k}:
                        if l not in problem_labels:
                            problem_labels.append(l)
                else:
                    args = []
                    snaps = []
                    for kind, val, poly in ([st["a"]] if st["geq"] else []) + list(st["ops"]):
                        if kind == "label":
                            args.append(val)
                            snaps.append(None)
                        elif kind == "dict":
                            d = dict(val)
                            args.append(d)
                            snaps.append((d, dict(d)))
                        else:               # "pubo"
                            d = qv.PUBO(val)
                            args.append(d)
                            snaps.append((d, dict(d)))
                        for l in {x for k in poly for x in k}:
                            if l not in problem_labels:
                                problem_labels.append(l)
                    getattr(H, "add_constraint_" + ("eq_" if st["geq"] else "") + st["gate"])(*args, lam=st["lam"])
                    unchanged = all(s is None or dict(s[0]) == s[1] for s in snaps)
                    rec.update({"gate": st["gate"], "geq": st["geq"], "ga": list(st["a"][2].items()) if st["geq"] else [],
                                "ops": [list(o[2].items()) for o in st["ops"]]})
            for w in ws:
                msg = str(w.message)
                if "cannot be satisfied" in msg:
                    wunsat = True
                if "always satisfied" in msg:
                    walways = True
        except Exception as e:                       # noqa: the exception is the observation
            raised = type(e).__name__ + ": " + str(e)[:100]
        after = snapshot_model(H, names)
        if fork and not raised and problem_labels:
            try:
                fork_and_abuse(H, fork, problem_labels[0], spin)
            except Exception:       # noqa  (what the derived model does is not judged here)
                pass
        try:
            cons = [(r, raw_terms(p)) for r, ps in H.constraints.items() for p in ps]
        except Exception:
            cons = []
        X = list(problem_labels)
        table, complete = valid_table(H, X, spin)
        rec.update({"before": before["terms"], "after": after["terms"], "anc_before": before["anc"], "anc_after": after["anc"],
                    "anc_labels_before": before["anc_labels"], "anc_labels_after": after["anc_labels"],
                    "anc_indices_after": after["anc_indices"], "warned_unsat": wunsat, "warned_always": walways,
                    "cons": cons, "X": X, "valid": table, "valid_complete": complete, "unchanged": bool(unchanged),
                    "raised": raised})
        try:
            recs.append(encode_record(rec, names))
        except common.Inexact as e:
            rec2 = blank_record()
            rec2.update({"id": first_id + si, "scen": scen_id, "step": si, "mode": st["mode"], "spin": spin,
                         "raised": "Inexact: %s" % e, "den": 1})
            recs.append(rec2)
    return recs


def estimate_ancillas(P, rel, lt, spin):
    lo, hi = true_extrema(P, spin)
    # crude upper estimate using the library's own approximate bounds is not available here; use a safe over-estimate
    if spin:
        width = sum(2 * abs(c) * (2 ** (len(k) - 1) if k else 0) for k, c in P.items()) + 2
    else:
        width = sum(abs(c) for k, c in P.items() if k) + 2
    if lt:
        return max(1, int(width).bit_length() + 1)
    return width + 1
