"""C10 - problem classes encode their combinatorial problem faithfully (SetCover, VertexCover, BILP, JobSequencing,
GraphPartitioning, NumberPartitioning, AlternatingSectorsChain)."""
import copy
import itertools
import json
import os
import warnings
from fractions import Fraction

from . import common, pure
from .tlc import run_tlc

DEFAULT_LIST = {"SetCover", "VertexCover", "NumberPartitioning", "GraphPartitioning", "JobSequencing"}


def gen_instance(rng, maxvars):
    cls = rng.choice(["SetCover", "VertexCover", "BILP", "JobSequencing", "GraphPartitioning", "NumberPartitioning",
                      "AlternatingSectorsChain"])
    if cls == "SetCover":
        nU = rng.randint(1, 3)
        U = list(range(nU)) if rng.random() < 0.5 else ["u%d" % i for i in range(nU)]
        nV = rng.randint(1, 3)
        V = []
        for _ in range(nV):
            V.append(sorted(rng.sample(U, rng.randint(1, nU)), key=str))
        if rng.random() < 0.8:                     # make it coverable most of the time
            for u in U:
                if not any(u in v for v in V):
                    V[rng.randrange(nV)].append(u)
        inst = {"U": U, "V": V, "weights": None, "log_trick": rng.random() < 0.5}
        if rng.random() < 0.45:
            w = [rng.choice([1, 0.5, 0.25]) for _ in V]
            w[rng.randrange(nV)] = 1
            inst["weights"] = w
            if rng.random() < 0.4 and nU >= 2:
                # one expensive set that covers everything next to a cheap partition: the optimum uses MORE sets
                cut = rng.randint(1, nU - 1)
                inst["V"] = [list(U), list(U[:cut]), list(U[cut:])]
                inst["weights"] = [1, rng.choice([0.25, 0.5]), 0.25]
                rot = rng.randrange(3)
                inst["V"] = inst["V"][rot:] + inst["V"][:rot]
                inst["weights"] = inst["weights"][rot:] + inst["weights"][:rot]
        weights = rng.choice(["default", "strict", "strict2"])
        A, B = {"default": (2, 1), "strict": (3, 2), "strict2": (2.5, 2)}[weights]
        return {"cls": cls, "inst": inst, "A": A, "B": B, "strict": True, "default": weights == "default"}
    if cls in ("VertexCover", "GraphPartitioning"):
        nv = rng.choice([2, 4]) if cls == "GraphPartitioning" else rng.randint(2, 5)
        verts = list(range(nv)) if rng.random() < 0.5 else ["a", "b", "c", "d", "e"][:nv]
        pairs = list(itertools.combinations(verts, 2))
        edges = [p for p in pairs if rng.random() < 0.6]
        if cls == "GraphPartitioning":
            for v in verts:                         # every vertex must occur (the class takes V from the edges)
                if not any(v in e for e in edges):
                    others = [x for x in verts if x != v]
                    edges.append((v, rng.choice(others)))
            edges = list({tuple(sorted(e, key=str)) for e in edges})
        if not edges:
            edges = [pairs[0]]
        inst = {"edges": [list(e) for e in edges]}
        if cls == "VertexCover":
            weights = rng.choice(["default", "strict"])
            A, B = {"default": (2, 1), "strict": (3, 2)}[weights]
            return {"cls": cls, "inst": inst, "A": A, "B": B, "strict": True, "default": weights == "default"}
        deg = max(sum(1 for e in edges if v in e) for v in verts)
        thr = Fraction(min(2 * deg, nv), 8)
        mode = rng.choice(["default", "strict"])
        if mode == "default":
            # the default A is a function of B: also with B given and A left out
            return {"cls": cls, "inst": inst, "A": None, "B": rng.choice([1, 1, 2, 3]), "strict": False, "default": True}
        B = rng.choice([1, 2])
        A = float(thr * B + Fraction(1, 4))
        return {"cls": cls, "inst": inst, "A": A, "B": B, "strict": True, "default": False}
    if cls == "BILP":
        n, m = rng.randint(1, 4), rng.randint(1, 2)
        S = [[rng.choice([-2, -1, 0, 1, 2]) for _ in range(n)] for _ in range(m)]
        x = [rng.choice([0, 1]) for _ in range(n)]
        b = [sum(S[j][i] * x[i] for i in range(n)) for j in range(m)]       # feasible by construction
        c = [rng.choice([-2, -1, 0, 1, 2]) for _ in range(n)]
        B = rng.choice([1, 2])
        A = B * sum(abs(v) for v in c) + rng.choice([0.5, 1])
        return {"cls": cls, "inst": {"c": c, "S": S, "b": b, "as_arrays": rng.random() < 0.4}, "A": A, "B": B, "strict": True, "default": False}
    if cls == "JobSequencing":
        m = 3 if rng.random() < 0.35 else 2          # three workers: also more workers than jobs
        nj = rng.randint(1, 2) if m == 3 else rng.randint(1, 3)
        lengths = [rng.randint(1, 2) for _ in range(nj)]
        inst = {"lengths": lengths, "m": m, "log_trick": rng.random() < 0.5,
                "lengths_form": rng.choice(["list", "list", "tuple", "dict", "odict", "ddict"])}
        mode = rng.choice(["default", "strict"])
        B = rng.choice([1, 1, 2]) if mode == "default" else rng.choice([1, 2])
        A = None if mode == "default" else B * max(lengths) + 1
        return {"cls": cls, "inst": inst, "A": A, "B": B, "strict": mode == "strict", "default": mode == "default"}
    if cls == "NumberPartitioning":
        k = rng.randint(2, 5)
        S = [rng.randint(1, 5) for _ in range(k)]
        if rng.random() < 0.7:                      # make it partitionable most of the time
            half = S[:k // 2 + 1]
            S = half + [sum(half)] if rng.random() < 0.5 else half + half
            S = S[:6]
        return {"cls": cls, "inst": {"S": S, "as_tuple": rng.random() < 0.5}, "A": rng.choice([1, 2]), "B": 1, "strict": True,
                "default": True}
    N = rng.randint(2, 7)
    return {"cls": cls, "inst": {"N": N, "chain_length": rng.randint(2, 3), "min_strength": rng.choice([1, 2]),
                                 "max_strength": rng.choice([3, 10]), "pbc": rng.random() < 0.5}, "A": None, "B": 1, "strict": True,
            "default": True}


def stress_instances(thorough):
    """hand-picked larger instances where slack sizing matters (every set of a 3-fold covered element is needed)"""
    out = [{"cls": "SetCover", "inst": {"U": [0, 1, 2, 3], "V": [[0, 1], [0, 2], [0, 3]], "weights": None, "log_trick": True},
            "A": 2, "B": 1, "strict": True, "default": True, "big": True}]
    # set covers in which every minimum cover covers some element twice, without the log trick (one ancilla per multiplicity)
    out.append({"cls": "SetCover", "inst": {"U": [0, 1, 2], "V": [[0, 1], [1, 2]], "weights": None, "log_trick": False},
                "A": 3, "B": 2, "strict": True, "default": False})
    out.append({"cls": "SetCover", "inst": {"U": ["u0", "u1", "u2"], "V": [["u0", "u1"], ["u1", "u2"], ["u1"]], "weights": None, "log_trick": False},
                "A": 2, "B": 1, "strict": True, "default": True})
    # BILP instances in which a linear coefficient cancels exactly under the DEFAULT weights (A = 2, B = 1)
    out.append({"cls": "BILP", "inst": {"c": [2, 1], "S": [[1, 0]], "b": [1]}, "A": 4, "B": 1, "strict": True, "default": False})
    out.append({"cls": "BILP", "inst": {"c": [1, 2, 0], "S": [[0, 1, 0], [1, 0, 1]], "b": [1, 1]}, "A": 4, "B": 1, "strict": True, "default": False})
    if thorough:
        out.append({"cls": "SetCover", "inst": {"U": [0, 1, 2, 3], "V": [[0, 1], [0, 2], [0, 3]], "weights": None, "log_trick": False},
                    "A": 3, "B": 2, "strict": True, "default": False, "big": True})
        out.append({"cls": "JobSequencing", "inst": {"lengths": [3, 1, 1], "m": 2, "log_trick": True}, "A": 4, "B": 1, "strict": True,
                    "default": False, "big": True})
    return out


def build(case):
    from qubovert import problems
    cls, inst = case["cls"], case["inst"]
    if cls == "SetCover":
        kw = {}
        if inst["weights"] is not None:
            kw["weights"] = list(inst["weights"])
        return problems.SetCover(set(inst["U"]), [set(v) for v in inst["V"]], log_trick=inst["log_trick"], **kw)
    if cls == "VertexCover":
        return problems.VertexCover({tuple(e) for e in inst["edges"]})
    if cls == "GraphPartitioning":
        return problems.GraphPartitioning({tuple(e) for e in inst["edges"]})
    if cls == "BILP":
        if inst.get("as_arrays"):
            # numpy arrays that the caller recycles afterwards: the instance must keep the problem it was given
            import numpy as np
            c_, S_, b_ = np.array(inst["c"]), np.array(inst["S"]), np.array(inst["b"])
            prob_ = problems.BILP(c_, S_, b_)
            c_ += 7
            S_ *= 0
            b_ -= 3
            return prob_
        return problems.BILP(list(inst["c"]), [list(r) for r in inst["S"]], list(inst["b"]))
    if cls == "JobSequencing":
        # the job lengths as every documented container: list, tuple, dict - and dict subclasses
        import collections
        L_ = list(inst["lengths"])
        form_ = inst.get("lengths_form", "list")
        arg_ = {"list": L_, "tuple": tuple(L_), "dict": dict(enumerate(L_)), "odict": collections.OrderedDict(enumerate(L_)),
                "ddict": collections.defaultdict(int, enumerate(L_))}[form_]
        return problems.JobSequencing(arg_, inst["m"], log_trick=inst["log_trick"])
    if cls == "NumberPartitioning":
        return problems.NumberPartitioning(tuple(inst["S"]) if inst["as_tuple"] else list(inst["S"]))
    return problems.AlternatingSectorsChain(inst["N"], inst["chain_length"], inst["min_strength"], inst["max_strength"])


def run_case(case, cid, maxvars):
    import numpy as np
    cls, inst = case["cls"], case["inst"]
    rec = {"id": cid, "cls": cls, "inst": {}, "n": 0, "np": 0, "B": 1, "unit": 1, "strict": case["strict"], "judge_ground": False,
           "spinform": False, "terms": [], "den": 1, "tab": [], "has_bf": False, "bf": [], "has_bf_all": False, "bf_all": [],
           "raised": "", "unchanged": True, "skip": False}
    try:
        with warnings.catch_warnings():
            warnings.simplefilter("ignore")
            args_snap = copy.deepcopy(inst)
            prob = build(case)
            n = int(prob.num_binary_variables)
            if n > (16 if case.get("big") else maxvars):
                rec["skip"] = True
                return rec
            kw = {}
            if cls == "AlternatingSectorsChain":
                form = pure.twice(lambda: prob.to_quso(pbc=inst["pbc"]))
                spinform = True
            elif cls == "NumberPartitioning":
                form = pure.twice(lambda: prob.to_quso(A=case["A"]))
                spinform = True
            elif cls == "GraphPartitioning":
                if case["A"] is not None:
                    kw = {"A": case["A"], "B": case["B"]}
                elif case["B"] != 1:
                    kw = {"B": case["B"]}
                form = pure.twice(lambda: prob.to_quso(**kw))
                spinform = True
            else:
                if case["A"] is not None:
                    kw = {"A": case["A"], "B": case["B"]}
                elif case["B"] != 1 and cls == "JobSequencing":
                    kw = {"B": case["B"]}
                form = pure.twice(lambda: prob.to_qubo(**kw))
                spinform = False
            terms = [(tuple(k), v) for k, v in dict.items(form)]
            # problem variables and index -> problem object (observed through unit assignments)
            if cls == "SetCover":
                npv = len(inst["V"])
            elif cls in ("VertexCover", "GraphPartitioning"):
                npv = n
            elif cls == "BILP":
                npv = n
            elif cls == "JobSequencing":
                npv = inst["m"] * len(inst["lengths"])
            else:
                npv = n

            def full(bits, anc, spin):
                vals = list(bits) + [anc] * (n - npv)
                return [(1 - 2 * v) for v in vals] if spin else vals

            def sol_forms(bits, anc):
                b = full(bits, anc, False)
                z = full(bits, anc, True)
                return [(b, False), (dict(enumerate(b)), False), (tuple(z), True), (dict(enumerate(z)), True)]

            # index -> vertex for the graph classes (observed, then used consistently)
            idx2v = None
            if cls in ("VertexCover", "GraphPartitioning"):
                idx2v = {}
                for i in range(npv):
                    bits = [1 if j == i else 0 for j in range(npv)]
                    d = prob.convert_solution(bits)
                    part = d if cls == "VertexCover" else d[0]
                    idx2v[i] = list(part)[0] if len(part) == 1 else None
                if None in idx2v.values() or len(set(idx2v.values())) != npv:
                    raise ValueError("index -> vertex map is not a bijection: %r" % (idx2v,))
                v2i = {v: i for i, v in idx2v.items()}
                rec_edges = [[v2i[e[0]], v2i[e[1]]] for e in inst["edges"]]

            def decode_to_on(dec, spin_input):
                """the implementation's decoded solution -> set of problem-variable indices that are 'on'"""
                if cls == "SetCover":
                    return sorted(int(i) for i in dec)
                if cls == "VertexCover":
                    return sorted(v2i[v] for v in dec)
                if cls == "BILP":
                    return [i for i, v in enumerate(dec.tolist()) if v == 1]
                if cls == "JobSequencing":
                    on = []
                    for w, jobs in enumerate(dec):
                        for j in jobs:
                            on.append(int(j) * inst["m"] + w)
                    return sorted(on)
                if cls == "GraphPartitioning":
                    # partition1 = vertices whose value is 1 (boolean 1 / spin +1); 'on' in the record = value "1" boolean
                    p1 = sorted(v2i[v] for v in dec[0])
                    return p1 if not spin_input else sorted(v2i[v] for v in dec[1])
                if cls == "NumberPartitioning":
                    return None
                return None
            tab = []
            for bits in itertools.product([0, 1], repeat=npv):
                on = [i for i, b in enumerate(bits) if b]
                outs, valids = [], []
                for anc in (0, 1):
                    for sol, spin in sol_forms(bits, anc):
                        dec = prob.convert_solution(copy.deepcopy(sol), spin)
                        if cls == "NumberPartitioning":
                            S = inst["S"]
                            want1 = sorted(S[i] for i, b in enumerate(bits) if (b == 1) != spin)
                            want2 = sorted(S[i] for i, b in enumerate(bits) if (b == 1) == spin)
                            ok = (sorted(dec[0]) == want1 and sorted(dec[1]) == want2)
                            outs.append(on if ok else [-1])
                        elif cls == "AlternatingSectorsChain":
                            ok = tuple(dec) == tuple(1 - 2 * b for b in bits)
                            outs.append(on if ok else [-1])
                        else:
                            outs.append(decode_to_on(dec, spin))
                        valids.append(bool(prob.is_solution_valid(copy.deepcopy(sol), spin)))
                        valids.append(bool(prob.is_solution_valid(dec)))
                        # the spin flag left to the library's detection, where the assignment is unambiguous: a spin assignment
                        # with a -1 anywhere (ancillas included), any boolean assignment
                        vals_ = list(sol.values()) if isinstance(sol, dict) else list(sol)
                        if cls not in ("NumberPartitioning", "AlternatingSectorsChain") and ((spin and -1 in vals_) or not spin):
                            outs.append(decode_to_on(prob.convert_solution(copy.deepcopy(sol)), spin))
                            valids.append(bool(prob.is_solution_valid(copy.deepcopy(sol))))
                same = all(o == outs[0] for o in outs) and all(v == valids[0] for v in valids)
                tab.append([on, outs[0], valids[0], bool(same)])
            fr = [common.frac(v) for _, v in terms] + [common.frac(case["B"])]
            wden = 1
            if cls == "SetCover" and inst["weights"] is not None:
                wden = max(Fraction(x).limit_denominator(8).denominator for x in inst["weights"])
            den = max(common.common_den(fr), 2, wden)
            rec.update({"n": n, "np": npv, "spinform": spinform, "den": den,
                        "terms": [[[int(x) for x in k], common.to_int(common.frac(v), den)] for k, v in terms],
                        "B": common.to_int(common.frac(case["B"]) * Fraction(1, wden), den), "tab": tab,
                        "judge_ground": bool(case["strict"] or (case["default"] and cls in DEFAULT_LIST))})
            # instance in the specification's terms
            if cls == "SetCover":
                Ul = list(inst["U"])
                ui = {u: i for i, u in enumerate(Ul)}
                w = inst["weights"] or [1] * len(inst["V"])
                rec["inst"] = {"U": list(range(len(Ul))), "V": [[ui[x] for x in v] for v in inst["V"]],
                               "weights": [int(Fraction(x).limit_denominator(8) * wden) for x in w]}
            elif cls in ("VertexCover", "GraphPartitioning"):
                rec["inst"] = {"edges": rec_edges}
            elif cls == "BILP":
                rec["inst"] = {"c": inst["c"], "S": inst["S"], "b": inst["b"]}
            elif cls == "JobSequencing":
                rec["inst"] = {"lengths": inst["lengths"], "m": inst["m"]}
            elif cls == "NumberPartitioning":
                rec["inst"] = {"S": inst["S"]}
            else:
                rec["inst"] = {"N": inst["N"]}
            # brute force
            try:
                if cls in ("SetCover", "JobSequencing"):
                    bf = pure.twice(lambda: prob.solve_bruteforce())
                    rec["has_bf"], rec["bf"] = True, decode_to_on(bf, False)
                    bfa = pure.twice(lambda: prob.solve_bruteforce(all_solutions=True))
                    rec["has_bf_all"], rec["bf_all"] = True, [decode_to_on(x, False) for x in bfa]
                elif case["strict"] and cls in ("VertexCover", "BILP", "GraphPartitioning") and case["A"] is not None:
                    # the inherited solver forwards its arguments to to_qubo: weights above the threshold
                    bf = pure.twice(lambda: prob.solve_bruteforce(A=case["A"], B=case["B"]))
                    rec["has_bf"], rec["bf"] = True, decode_to_on(bf, False)
                if cls in ("VertexCover", "BILP", "GraphPartitioning", "NumberPartitioning"):
                    # the inherited solver with its default weights: must return SOME decoded solution (optimality is only
                    # promised above the thresholds) - also when a coefficient cancels while the QUBO is built
                    prob.solve_bruteforce()
            except ValueError as e:
                if "not solvable" not in str(e):
                    raise
            rec["unchanged"] = (inst == args_snap)
    except common.Inexact as e:
        rec["raised"] = "Inexact: %s" % e
    except Exception as e:                 # noqa
        rec["raised"] = type(e).__name__ + ": " + str(e)[:140]
    return rec


def describe(case):
    return {k: (repr(v) if k == "inst" else v) for k, v in case.items() if k != "_index"}


def run(tier, out, replay=None):
    wd = common.workdir("c10")
    rng = common.rng_for(out.seed, "c10")
    thorough = tier == "thorough"
    maxvars = 13 if thorough else 11
    try:
        cases = [gen_instance(rng, maxvars) for _ in range(1500 if thorough else 300)] + stress_instances(thorough)
        for i, c in enumerate(cases):
            c["_index"] = i
        if replay:
            cases = [cases[json.load(open(replay))["record"]["case_index"]]]
        recs, kept = [], []
        for i, c in enumerate(cases):
            r = run_case(c, i, maxvars)
            if r["skip"]:
                out.add("instances_skipped_too_many_variables", 1)
                continue
            r.pop("skip")
            recs.append(r)
            kept.append(c)
        out.add("evaluations", len(recs))
        out.set("per_class", {k: sum(1 for c in kept if c["cls"] == k) for k in sorted({c["cls"] for c in kept})})
        out.set("distinct_nontrivial", len({json.dumps(describe(c), sort_keys=True) for c in kept}))
        out.set("rule", "seeded instance generator per class (set systems |U|,|V| <= 3, graphs on <= 5 vertices, BILP n <= 4, m <= 2 feasible by "
                        "construction, <= 3 jobs of length <= 2 on 2 workers, <= 6 numbers, chains N <= 7), default weights and weights strictly "
                        "above the documented threshold, log_trick both ways; encodings with more than %d variables are skipped; every instance "
                        "is non-trivial; TLC evaluates the encoding on EVERY assignment of its variables" % maxvars)
        if kept:
            out.sample(describe(kept[0]))
        rf = os.path.join(wd, "recs.ndjson")
        common.write_ndjson(rf, recs)
        r = run_tlc("Problems", "Problems.cfg", env={"QV_RECS": rf}, cont=True, timeout=3400, name="problems")
        out.add("states", r.distinct)
        seen = set()
        for v in r.viol_lines:
            clause, idx = v[1].strip('"'), int(v[2])
            rec, case = recs[idx - 1], kept[idx - 1]
            if (idx, clause) in seen:
                continue
            seen.add((idx, clause))
            out.violation(clause, "%s %s %s" % (clause, case["cls"], "strict-weights" if case["strict"] else "default-weights"),
                          {"case": describe(case), "raised": rec["raised"], "n": rec["n"]}, {"case_index": case["_index"]})
        if r.violated and not r.viol_lines:
            out.violation(r.violated[0], r.violated[0], r.stdout[-1500:], None)
        out.assumptions += ["small instances only (encodings with <= 10 / 12 variables)",
                            "the inherited Problem.solve_bruteforce is called with weights above the threshold (it forwards them to to_qubo)",
                            "weighted GraphPartitioning is not generated (the stated threshold is for unit weights)",
                            "index -> vertex maps of the graph classes are observed through unit assignments and checked to be bijections"]
    finally:
        common.cleanup(wd)
