"""Rebuild the C extension from /repo's working tree into /verif/.work and load it in place of the
(possibly stale) prebuilt qubovert/sim/_canneal*.so, so every annealer check sees the current sources."""
import hashlib
import importlib.machinery
import importlib.util
import os
import subprocess
import sys
import sysconfig

from . import common
from .tlc import MachineryError

SOURCES = ["qubovert/sim/_canneal.c", "qubovert/sim/src/pcg_basic.c", "qubovert/sim/src/random.c",
           "qubovert/sim/src/anneal_quso.c", "qubovert/sim/src/anneal_puso.c"]
ASAN_RT = None


def asan_runtime():
    out = subprocess.run(["clang", "-print-file-name=libclang_rt.asan-x86_64.so"], stdout=subprocess.PIPE, text=True).stdout.strip()
    return out if os.path.exists(out) else None


def build(tag="plain", sanitize=False, repo=None):
    """returns path of the built shared object"""
    repo = repo or common.REPO
    srcs = [os.path.join(repo, s) for s in SOURCES]
    h = hashlib.sha1()
    for s in srcs + [os.path.join(repo, "qubovert/sim/src", x) for x in os.listdir(os.path.join(repo, "qubovert/sim/src")) if x.endswith(".h")]:
        with open(s, "rb") as f:
            h.update(f.read())
    outdir = os.path.join(common.WORK, "build", "%s_%s" % (tag, h.hexdigest()[:12]))
    so = os.path.join(outdir, "_canneal" + (sysconfig.get_config_var("EXT_SUFFIX") or ".so"))
    if os.path.exists(so):
        return so
    os.makedirs(outdir, exist_ok=True)
    inc = sysconfig.get_paths()["include"]
    if sanitize:
        cmd = ["clang", "-O1", "-g", "-fno-omit-frame-pointer", "-fsanitize=address,undefined",
               "-fno-sanitize-recover=undefined", "-shared-libasan"]
    else:
        cmd = ["gcc", "-O2"]
    cmd += ["-shared", "-fPIC", "-I", inc, "-I", os.path.join(repo, "qubovert/sim/src")] + srcs + ["-lm", "-o", so]
    p = subprocess.run(cmd, stdout=subprocess.PIPE, stderr=subprocess.STDOUT, text=True)
    if p.returncode != 0 or not os.path.exists(so):
        raise MachineryError("C build failed: %s\n%s" % (" ".join(cmd), p.stdout[-3000:]))
    return so


def inject(so):
    """make `so` the module qubovert.sim._canneal; must run before qubovert is imported"""
    if "qubovert" in sys.modules:
        raise MachineryError("qubovert imported before the fresh extension was injected")
    loader = importlib.machinery.ExtensionFileLoader("qubovert.sim._canneal", so)
    spec = importlib.util.spec_from_file_location("qubovert.sim._canneal", so, loader=loader)
    mod = importlib.util.module_from_spec(spec)
    loader.exec_module(mod)
    sys.modules["qubovert.sim._canneal"] = mod
    return mod
