"""Shared by C04 / C07 / C15 / C18: record template, model generation, label naming, running CheckPure."""
import copy
import itertools
import os

from . import common
from .tlc import run_tlc


def blank(cid, op):
    return {"id": cid, "op": op, "spin": False, "model": [], "den": 1, "K": [], "raised": "", "raise_ok": False, "unchanged": True,
            "rtype": "", "expect_type": "", "result": [], "result_spin": False, "map": [], "table": [], "tree": ["L", "x"],
            "lo": 0, "hi": 0, "t0_ge_tf": True, "tf_ge_0": True, "novars": False, "zero_zero": True, "vals": [], "nodes": [],
            "norm_value": 1, "model_c": [], "lo2": [0, 0], "hi2": [0, 0]}


BOOL_KINDS = ["dict", "QUBO", "PUBO", "PCBO", "QUBOMatrix", "PUBOMatrix"]
SPIN_KINDS = ["dict", "QUSO", "PUSO", "PCSO", "QUSOMatrix", "PUSOMatrix"]
QUADK = {"QUBO", "QUSO", "QUBOMatrix", "QUSOMatrix"}


def classes():
    import qubovert as qv
    from qubovert import utils
    return {"QUBO": qv.QUBO, "QUSO": qv.QUSO, "PUBO": qv.PUBO, "PUSO": qv.PUSO, "PCBO": qv.PCBO, "PCSO": qv.PCSO,
            "QUBOMatrix": utils.QUBOMatrix, "QUSOMatrix": utils.QUSOMatrix, "PUBOMatrix": utils.PUBOMatrix,
            "PUSOMatrix": utils.PUSOMatrix, "dict": dict}


class Namer:
    def __init__(self, labels, matrix):
        self.matrix = matrix
        self.names = {(type(l).__name__, l): "L%d" % i for i, l in enumerate(labels)}

    def __call__(self, l):
        if self.matrix:
            if isinstance(l, bool):
                return -7
            if isinstance(l, int):
                return l
            try:
                import numpy as np
                if isinstance(l, np.integer):
                    return int(l)
            except ImportError:
                pass
            return -7
        return self.names.get((type(l).__name__, l), "?%r" % (l,))


def gen_model(rng, kind, quad=False, nmax=4, maxdeg=3, halves_p=0.25, raw_dict_tricks=True, allow_empty=True):
    matrix = kind.endswith("Matrix")
    n = rng.randint(0 if allow_empty else 1, nmax)
    if matrix:
        labels = sorted(rng.sample(range(0, 6), n))
    else:
        pool = list(rng.choice(common.LABEL_POOLS))
        rng.shuffle(pool)
        labels = pool[:n]
    halves = rng.random() < halves_p
    keys = []
    for d in range(1, (2 if (quad or kind in QUADK) else maxdeg) + 1):
        keys += list(itertools.combinations(labels, d))
    rng.shuffle(keys)
    terms = {}
    for k in keys[:rng.randint(0, 5)]:
        kk = list(k)
        if not matrix:
            rng.shuffle(kk)
        terms[tuple(kk)] = rng.choice([-1.5, -0.5, 0.5, 1.5, 1]) if halves else rng.choice([-3, -2, -1, 1, 2, 3])
    if rng.random() < 0.5:
        terms[()] = rng.choice([-2, -1, 1, 3]) if not halves else rng.choice([-0.5, 1.5])
    if kind == "dict" and raw_dict_tricks and labels and rng.random() < 0.25:
        # raw dicts may repeat a label inside a key and list the same monomial under two orders
        terms[(labels[0], labels[0])] = rng.choice([-1, 2])
        if len(labels) >= 2:
            terms[(labels[1], labels[0])] = rng.choice([-1, 1])
            terms[(labels[0], labels[1])] = rng.choice([1, 2])
        if not (quad or kind in QUADK) and rng.random() < 0.4:
            # a label three times in one key (boolean: x, spin: z), also next to another label
            terms[(labels[0], labels[0], labels[0])] = rng.choice([-2, 1, 3])
            if len(labels) >= 2 and rng.random() < 0.5:
                terms[(labels[0], labels[1], labels[0], labels[0])] = rng.choice([-1, 2])
    return labels, terms, matrix


def enc_terms(terms, nm, den):
    return [[[nm(x) for x in k], common.to_int(common.frac(v), den)] for k, v in terms]


def items_of(m):
    return [(tuple(k), v) for k, v in dict.items(m)]


def same(obj, snap):
    try:
        return type(obj) is type(snap) and obj == snap
    except Exception:
        return False


def check(out, wd, recs, cases, tag, signature, describe):
    rf = os.path.join(wd, "recs_%s.ndjson" % tag)
    common.write_ndjson(rf, recs)
    r = run_tlc("CheckPure", "CheckPure.cfg", env={"QV_RECS": rf}, cont=True, timeout=3000, name="checkpure_" + tag)
    out.add("states", r.distinct)
    out.add("transitions", r.generated)
    seen = set()
    for v in r.viol_lines:
        clause, idx = v[1].strip('"'), int(v[2])
        rec, case = recs[idx - 1], cases[idx - 1]
        if (idx, clause) in seen:
            continue
        seen.add((idx, clause))
        out.violation(clause, signature(clause, rec, case), {"case": describe(case), "result": rec["result"][:10], "raised": rec["raised"],
                                                              "rtype": rec["rtype"]}, {"case_index": case.get("_index", idx - 1)})
    if r.violated and not r.viol_lines:
        out.violation(r.violated[0], r.violated[0], r.stdout[-1500:], None)
    return r


def universe(which, wd):
    """the polynomial universe defined in spec/GenPoly.tla, emitted by TLC: list of {key tuple of names: coef} + description"""
    import json
    outp = os.path.join(wd, "universe_%s.json" % which)
    r = run_tlc("GenPoly", "GenPoly.cfg", env={"QV_GEN": which, "QV_GEN_OUT": outp}, timeout=600, workers=4, name="genpoly_" + which)
    u = json.load(open(outp))
    polys = [{tuple(k): c for k, c in p} for p in u["polys"]]
    return polys, {"labels": u["labels"], "coefficients": u["coefs"], "size": u["size"], "emitted_by": "TLC (spec/GenPoly.tla)"}


def instantiate(poly, pylabels):
    """universe polynomial over names L0.. -> python terms over the given labels"""
    m = {"L%d" % i: l for i, l in enumerate(pylabels)}
    return {tuple(m[x] for x in k): c for k, c in poly.items()}


def scribble(obj):
    """write into a returned object (whatever it is); a later identical call must not see it"""
    try:
        import numpy as np
        if isinstance(obj, np.ndarray):
            if obj.size:
                obj.flat[0] += 7
            return
    except ImportError:
        pass
    if isinstance(obj, dict):
        for key in (("__poked__",), (97,), "__poked__", 97):
            try:
                obj[key] = 7
                return
            except Exception:      # noqa
                continue
    elif isinstance(obj, list):
        if obj and isinstance(obj[0], list) and obj[0]:
            obj[0][0] += 7
        obj.append(7)
    elif isinstance(obj, tuple):
        for o in obj:
            scribble(o)


def twice(f):
    """call f, scribble into what it returned, call it again: the SECOND result is the one to judge"""
    try:
        scribble(f())
    except Exception:      # noqa  (the second call reports what it raises)
        pass
    return f()
