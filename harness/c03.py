"""C03 - PCSO comparison constraints (the C02 machinery on spin models)."""
from . import c02


def run(tier, out, replay=None):
    c02.run_generic(tier, out, True, (["Cons_spin_quick.cfg"], ["Cons_spin_full.cfg"]), "c03", replay)
