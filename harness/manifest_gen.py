"""Regenerates /verif/MANIFEST.json from the table below (single source of truth for the interface)."""
import json
import os
import sys

VERIF = os.path.dirname(os.path.dirname(os.path.abspath(__file__)))
BASELINE = "cd /repo && /venv/bin/python -m pytest -ra -q -p no:cacheprovider --timeout=900 --continue-on-collection-errors"

CHECKS = {}   # pid -> dict(level, text, note, technique, design_ref)
NOT_APPLICABLE = {}


def check(pid, level, text, note, technique, design_ref):
    CHECKS[pid] = dict(level=level, text=text, note=note, technique=technique, design_ref=design_ref)


check("C13", "model_checking",
      "TLC explores spec/AnnealResults.tla (one action per list operation of the statement incl. sort with a caller's key / reverse and "
      "extend / += with one-shot iterators, two collections) exhaustively "
      "at small constants with BestIsMin/NoRaise as invariants; the dumped state graph and simulated behaviours are "
      "replayed on the real AnnealResults and every recorded step is validated by spec/AnnealResultsTrace.tla "
      "(list contents pinned, BestIsMin evaluated on the implementation's own state). A stale or wrong `best`, an exception "
      "or a non-AnnealResults derived collection after ANY explored history is reported.",
      "bounded: lists of length <= 2-4, values from a 2-3 element set incl. duplicates, zero and a negative value, <= 12 results per history; "
      "trusted: TLC, the projection of real objects (state dict -> id) in harness/c13.py",
      "TLA+ state machine + TLC exhaustive check; spec behaviours replayed into the class; trace validation by TLC",
      "DESIGN 3 C13")

check("C14", "model_checking",
      "TLC explores spec/ModelObj.tla (every mutator built from one __setitem__ exactly as the code composes them: item/augmented "
      "assignment incl. zero values and repeated labels, += -= *= **= with dict/model/scalar operands, update, clear, refresh, copy, "
      "constraint methods, enumerated forms, set_mapping, in-place scalar - and /) exhaustively to a depth bound for six pairs of classes covering all ten kinds, with "
      "UpperBounds / MappingBijection / StoredCanonical / AncCovers as invariants and RefreshExact / AncNeverReused as action "
      "properties. Every transition of the 2-step graph and long simulated histories are replayed on the real classes with labels "
      "of mixed hashable types, as are directed histories (one weight per operation) and pairs of objects of the same class; the "
      "in-place forms between every ordered pair of classes over the universe of spec/GenPoly.tla are judged by spec/CheckBin.tla "
      "(Bookkeeping); spec/ModelObjTrace.tla validates each recorded step: stored function pinned, the C14 contract "
      "evaluated on the implementation's own caches, mapping, reverse mapping, ancilla counter and enumerated forms.",
      "bounded: <= 3 labels, coefficients in {-1,0,1}, raw keys of length <= 3, histories of <= 4 steps exhaustively and <= 14 steps "
      "by simulation; trusted: TLC, the projection in harness/modelobj.py",
      "TLA+ state machine + TLC exhaustive check; spec behaviours replayed into the classes; trace validation by TLC",
      "DESIGN 3 C14")

check("C11", "exploration",
      "Every polynomial of the TLC-emitted universe (spec/GenPoly.tla) through each of the four functions as dict and native Matrix type "
      "(exhaustive tier), and seeded calls of the four annealing functions over every accepted model type (dict, labelled, Matrix with gaps, constant and "
      "empty models), schedules ('linear', 'geometric', explicit incl. zeros and []), anneal_duration, temperature_range, initial "
      "states, both orders, seeds and num_anneals in {-1,0,1,2,3} run against the extension rebuilt from /repo; spec/CheckAnneal.tla "
      "(TLC) evaluates on every record: result count, state domain (Matrix: 0..max_index), value set, spin flag, value = model "
      "evaluated at the state incl. offset (exact integers over a common denominator), best minimal, argument unchanged, no exception.",
      "exploration of a seeded call space (1500 quick / 12000 thorough calls, <= 5 variables, degree <= 4); cross-kind Matrix inputs "
      "(e.g. anneal_pubo(QUBOMatrix)) may return either 0..max_index or the occurring indices; trusted: TLC, the record encoder",
      "real calls recorded, result contract written in TLA+ and evaluated by TLC on every record", "DESIGN 3 C11")
check("C12", "model_checking",
      "Design: spec/Metropolis.tla, TLC over every model on 3 spins with couplings/fields in a small set, every visiting order: the QUSO "
      "kernel's incrementally maintained dE cache is exact (factor 2 instead of 4 is rejected), the PUSO kernel's subgraph formula is "
      "exact, zero temperature never increases the energy. Code: seeded calls of anneal_quso / anneal_puso run against the rebuilt "
      "extension with the env-guarded C step trace (hook H2); spec/MetropolisTrace.tla validates EVERY logged visit: position and "
      "order, logged dE = exact energy change of the marshalled model in the spec state, Metropolis acceptance rule with the logged "
      "variate, final state/value, API results = kernel results under a verified index->label witness, marshalled model = caller's "
      "model, each call made twice with identical traces and results, results <= initial value at temperature zero. Thorough: the "
      "repository's own annealer tests run under the same trace (a bounded prefix per kernel call) and are validated the same way.",
      "the distributional claim is reduced to step-level conformance plus the ASSUMPTION that PCG32 output is i.i.d. uniform; "
      "`below := u < exp(-dE/T)` is computed by the harness with the same libm; models <= 5 spins, degree <= 4",
      "TLA+ model of the Metropolis step checked by TLC; C-level step traces from the real kernels validated against it by TLC",
      "DESIGN 3 C12")
check("C17", "exploration",
      "Design: spec/Marshal.tla transcribes the front end's flattening and every buffer access of _canneal.c and both kernels; TLC "
      "checks InBounds for every model the front end can marshal within the bounds (incl. stale models, gaps, no terms; the unguarded "
      "index[0] write of the pinned code is rejected). Code: the C11 call space plus stale models runs as ONE sequence of calls in a "
      "clang ASan+UBSan build of the current sources (LD_PRELOAD of the ASan runtime), then in reverse order in a fresh process; "
      "spec/CheckMarshal.tla evaluates the access predicates on the REAL marshalled arguments and asserts no sanitizer report / crash "
      "and results independent of the calls made before.",
      "memory safety of the compiled code is observed by ASan/UBSan on the explored calls only; uninitialised reads are not covered",
      "TLA+ access model checked by TLC; sanitizer-instrumented replay of the call space; real marshalled arguments checked against the model",
      "DESIGN 3 C17")

check("C02", "model_checking",
      "Design: spec/Constraints.tla transcribes the case analysis of PCBO.add_constraint_{eq,ne,lt,le,gt,ge}_zero (special cases, bounds, "
      "slack sizing with/without log_trick, the sign ancilla of ne); TLC checks the contract PenaltyExact (F >= 0; min over ancillas 0 iff "
      "the relation holds; >= lam otherwise; weaker when warned unsatisfiable), fresh ancilla names, soundness of the 'cannot be "
      "satisfied' branches and linearity in lam for EVERY polynomial over two labels with small coefficients, every relation, log_trick "
      "and several kinds of bounds. Code: (i) EXHAUSTIVE - every polynomial of the TLC-emitted universe (spec/GenPoly.tla: 2 labels, "
      "coefficients {-1,1,2}; thorough {-2,-1,1,2}; plus 3 labels: <= 3 terms of degree <= 2, thorough all 6561 with coefficients "
      "-1/1) x six relations x log_trick through the real method, i.e. the design-level universe run through the code; (ii) seeded scenarios of 1-3 constraints on one real PCBO (random and special-case-shaped "
      "polynomials over labels of mixed types, dict / PUBO / PCBO arguments, bounds omitted / partial / exact / loose; in some a copy "
      "/ sum / product / clone of the model is given further constraints before the model's own record is observed); "
      "spec/CheckConstraints.tla (TLC) evaluates the contract on the implementation's penalty for every assignment of variables and "
      "ancillas, is_solution_valid against the constraints passed, ancilla freshness across the scenario, num_ancillas, argument immutability "
      "(the caller's polynomial is scribbled into afterwards; between steps the model may be replaced by a copy / sum / product / clone / "
      "refresh of itself); spec/CheckSlack.tla judges the slack register size for ranges up to 2^63.",
      "bounded: <= 3 problem labels, |coef| <= 3, penalties with <= 9 ancillas for the truth-table clauses; bounds supplied are true "
      "enclosures computed by brute force; trusted: TLC, the record encoder (exact rationals over one denominator)",
      "TLA+ contract + transcription checked by TLC; real constraint calls recorded and judged by TLC against the contract", "DESIGN 3 C02")
check("C03", "model_checking",
      "As C02 for PCSO: design check of the wrapper (to boolean, constrain, back to spin) on every spin polynomial over two labels; "
      "the same TLC-emitted universe x six relations x log_trick through the real PCSO methods (exhaustive tier) and seeded "
      "real PCSO scenarios judged by spec/CheckConstraints.tla over spin assignments (F >= 0, zero iff H(z) R 0, >= lam otherwise), "
      "ancilla names never repeated across the constraints of a scenario, num_ancillas covers every ancilla present, is_solution_valid.",
      "as C02; spin penalties carry dyadic coefficients (one power-of-two denominator per record)",
      "TLA+ contract + transcription checked by TLC; real constraint calls recorded and judged by TLC against the contract", "DESIGN 3 C03")
check("C06", "model_checking",
      "Design: the sixteen gate methods transcribed in spec/Constraints.tla satisfy GateOK (no ancilla, 0 where the gate holds, >= lam "
      "elsewhere) and the sat builders their truth functions, for all arities <= 3 (4 thorough) over labels, a negation and a conjunction. "
      "Code: seeded calls of all sixteen real methods with 1-9 operands (labels of mixed types, expressions passed as dict or PUBO), "
      "sequences of gates on one model; spec/CheckConstraints.tla judges penalty and is_solution_valid on every assignment.",
      "bounded: 6 labels, arity <= 9, lam in {1/2,1,2,3}; operands' polynomials are defined by the harness (not by qubovert.sat)",
      "TLA+ contract + transcription checked by TLC; real gate-constraint calls recorded and judged by TLC", "DESIGN 3 C06")

check("C01", "model_checking",
      "Design: spec/Reduce.tla models PUBO._reduce_degree as a step machine with a NONDETERMINISTIC pair choice; TLC checks Exact "
      "(consistent ancillas reproduce M, any penalty), NeverUndercut (penalty >= |coefficient|), degree and label discipline and the "
      "equality of minima at EVERY step for all models / term orders / pair choices within the bounds (dropping the penalty on re-used "
      "pairs is rejected); spec/ReduceLocal.tla is the finite local lemma that makes both invariants inductive for models of any size. "
      "Code: (a) spec/CheckReduce.tla judges the forms returned by the real to_qubo/to_quso/to_pubo(d)/to_puso(d) of PUBO, PCBO, PUSO, "
      "PCSO (penalty None / constant / callable, pairs hints incl. unknown labels, labels of mixed types) on EVERY assignment of "
      "variables and ancillas: D(s) >= M(convert(s)) when the penalty dominates the boolean-form coefficients, some ancilla extension "
      "with D = M, degree, labels via the mapping, result type, convert_solution = restriction (handed over as dict / list / tuple, spin "
      "flag given or detected); models are fresh or carry a history (earlier conversion, set_mapping, edit + refresh); (b) hook H1 certificates of larger "
      "models (up to ~25 variables incl. ancillas) are validated step by step by spec/ReduceTrace.tla against the step machine.",
      "truth tables for forms with <= 10 (11 thorough) variables; larger forms only via certificates + ReduceLocal; small integer / "
      "half-integer coefficients; refreshed models as the statement requires; trusted: TLC, record encoder, hook H1 (add-only)",
      "TLA+ step machine + local lemma checked by TLC; real reduced forms judged on full truth tables by TLC; real reduction "
      "certificates validated as traces by TLC", "DESIGN 3 C01")

check("C05", "model_checking",
      "spec/PolyLaws.tla (TLC, every polynomial / pair over 2-3 labels) ties spec/Poly.tla to the pointwise meaning of + - * ** "
      "negation, evaluation, boolean<->spin, squashing. spec/ModelObj.tla composes every operator (binary, reflected, in-place, scalar, "
      "power, negation, division) from one __setitem__ exactly as the code does; TLC explores it exhaustively to a depth bound for "
      "six pairs of classes (all ten kinds). Every transition of the 2-step graph of two families and long simulated expression "
      "histories are replayed on the real classes; spec/ModelObjTrace.tla validates each step: stored function pinned (= polynomial "
      "arithmetic), raw keys canonical (sorted-duplicate-free keys, no zero coefficient), class of the result, operands and every other "
      "object unchanged, KeyError for products of quadratic kinds whose value exceeds degree 2, and value / pubo_value / qubo_value / "
      "puso_value / quso_value for dict, list and tuple assignments (also the smallest legal assignment) against direct evaluation. "
      "Operand-pair tier: for every ordered pair of the ten classes of one domain and every pair of polynomials of the universe "
      "emitted from spec/GenPoly.tla (3 labels, coefficients -1/1, <= 2 terms), a+b, a-b, a*b are run on the real classes and judged by "
      "spec/CheckBin.tla (value, KeyError exactly where a quadratic left class cannot store the result, class, canonical storage, "
      "operands unchanged, a+b == b+a), likewise a**2..5, -a, the in-place forms and operands scaled by 2^-43; spec/CheckValue.tla judges "
      "the four evaluation functions on raw dictionaries with repeated labels for every assignment as dict / list / tuple.",
      "bounded: <= 3 labels, coefficients in {-1,0,1}, histories of <= 3 steps exhaustively and <= 10 by simulation; result class "
      "judged only when the operands do not have two different model classes; trusted: TLC, harness projection",
      "TLA+ laws + state machine checked by TLC; spec behaviours replayed into the classes; trace validation by TLC", "DESIGN 3 C05")
check("C19", "model_checking",
      "spec/ModelObj.tla with copy / copy-constructor / get_info+create_from_info / getter-probe actions next to every mutator; TLC "
      "explores it exhaustively to a depth bound; behaviours are replayed on the real classes and spec/ModelObjTrace.tla validates after "
      "EVERY operation that every object other than the target is unchanged in its full projection (terms, caches, mapping, reverse "
      "mapping, constraints, name, ancilla count), so aliasing between a model and its copy / info clone / getter result / operand is "
      "caught as soon as either side is mutated; info round trips must reproduce type, terms, name, mapping, ancilla count, constraints "
      "and get_info equality. 110 library entry points (conversions, solvers, annealers, sat builders, constraint methods, problems, "
      "operators) are called with deep snapshots of their arguments, then the harness writes into the call's RESULT and compares the "
      "arguments again; spec/CheckImmutable.tla asserts the recorded observations (ArgUnchanged, ResultIndependent).",
      "bounded histories (<= 3 steps exhaustive, <= 12 simulated); argument immutability is an observation per call, not a proof",
      "TLA+ state machine checked by TLC; spec behaviours replayed into the classes; trace validation by TLC", "DESIGN 3 C19")

check("C04", "exploration",
      "Every conversion function and method is called on seeded models of every kind (raw dicts with unsorted / repeated labels, six "
      "labelled types, four Matrix types); spec/CheckPure.tla (TLC) canonicalises the returned terms itself (FromRaw) and compares them "
      "with the specification's conversion of the source: ToSpinNum / ToBool (laws proved in PolyLaws), Relabel by the mapping for "
      "to_pubo/puso/qubo/quso/enumerated, value after convert_solution for EVERY assignment as dict / list / tuple in boolean and spin "
      "form, exports Q, h/J, qubo_to_matrix (symmetric or not), matrix_to_qubo up to the constant, and the documented result types; "
      "labelled models also after set_mapping, chosen before or after the last labels arrive.",
      "seeded exploration (3000 quick / 20000 thorough cases), models with <= 4 variables and degree <= 3, integer / half-integer coefficients (exact arithmetic); trusted: TLC, the record encoder; result types judged only where the docstrings fix them", "real calls recorded; pinned results compared by TLC with the "
      "TLA+ definition of the conversion", "DESIGN 3 C04")
check("C07", "exploration",
      "Seeded expression trees over the eight builders (depth <= 2, 3 thorough; arity 1-5; leaves: labels of mixed types or 0/1-valued "
      "models of five boolean kinds) are built with the real functions; spec/CheckPure.tla evaluates the tree's truth table recursively, "
      "Moebius-inverts it to the unique multilinear polynomial and compares it with the canonical form of the returned model; inputs "
      "unchanged. The design-level counterpart (builders' fold constructions satisfy their truth functions) is checked in C06's config.",
      "seeded exploration (3000 quick / 20000 thorough cases), models with <= 4 variables and degree <= 3, integer / half-integer coefficients (exact arithmetic); trusted: TLC, the record encoder; a KeyError is accepted when a QUBO/QUBOMatrix leaf takes part", "real calls recorded; truth function defined in TLA+, "
      "result compared by TLC", "DESIGN 3 C07")
check("C09", "model_checking",
      "Seeded calls of the four solve_*_bruteforce functions and the solve_bruteforce methods (dict / labelled / Matrix models, offsets, "
      "constant and empty models, raw dicts, validity predicates from a named family, all_solutions both ways); spec/CheckSolve.tla "
      "(TLC) has one state per (call, assignment): no valid assignment lies below the objective, the reported solutions are valid "
      "minimisers over exactly the model's variables, with all_solutions every valid minimiser is reported exactly once, objective None "
      "iff nothing is valid, constant models, argument unchanged (terms and bookkeeping, also for stale model objects), and a second "
      "identical call after the caller scribbled into the first result returns the same.",
      "exhaustive over the TLC-emitted universe of spec/GenPoly.tla (256 / 625 polynomials x 4 functions x 2 kinds x all_solutions x 3 "
      "predicates) plus seeded models with <= 4 variables (every assignment enumerated by TLC), 2500 / 15000 calls; the constant-model sentence "
      "takes precedence over the None sentence where they compete; trusted: TLC, record encoder",
      "real calls recorded; solver contract written in TLA+ and evaluated by TLC over all assignments", "DESIGN 3 C09")
check("C15", "exploration",
      "Seeded calls of the four approximate_*_extrema functions on dicts and every model kind; spec/CheckPure.tla has one state per "
      "(call, assignment) and asserts lo <= value <= hi, and lo = hi = constant for constant models; anneal_temperature_range is called on "
      "a grid of admissible probability pairs incl. 0 and the recorded booleans T0 >= Tf, Tf >= 0, (0,0) without variables are asserted. "
      "The transcription ApproxB / ApproxS encloses the true extrema for every polynomial on 3 labels (PolyLaws, C05 design check).",
      "seeded exploration (3000 quick / 20000 thorough cases), models with <= 4 variables and degree <= 3, integer / half-integer coefficients (exact arithmetic); trusted: TLC, the record encoder; the temperature-range clause is a direct observation of the API (logarithms are outside TLA+)",
      "real calls recorded; enclosure checked by TLC on every assignment", "DESIGN 3 C15")
check("C18", "exploration",
      "Seeded calls of subvalue / subgraph / normalize (functions and methods) and symbolic subvalue on dicts and every model kind, "
      "partial assignments (domain values and other small integers), node sets, connection maps incl. None; spec/CheckPure.tla compares "
      "the canonical result with Poly.SubValue / SubGraph (laws in PolyLaws), checks the common factor and maximum of normalize by cross "
      "multiplication, the result type, and that symbolic substitution followed by subs equals numeric substitution.",
      "seeded exploration (3000 quick / 20000 thorough cases), models with <= 4 variables and degree <= 3, integer / half-integer coefficients (exact arithmetic); trusted: TLC, the record encoder; raw dicts that repeat a label inside a key only with domain values (no agreed meaning otherwise)",
      "real calls recorded; pinned results compared by TLC with the TLA+ definition", "DESIGN 3 C18")

check("C10", "exploration",
      "spec/Problems.tla defines, from each class's problem statement and independently of the encoder, Decode / Feasible / Cost / Opt "
      "for SetCover, VertexCover, BILP, JobSequencing, GraphPartitioning, NumberPartitioning and AlternatingSectorsChain. Seeded "
      "instances (default weights and weights strictly above the documented threshold, log_trick both ways) are built with the real "
      "classes; TLC judges the recorded convert_solution / is_solution_valid tables over all assignments of the problem variables "
      "(boolean and spin, list / dict, ancillas irrelevant) and evaluates the terms of to_qubo()/to_quso() on EVERY assignment of all "
      "formulation variables: nothing lies below B*Opt, some state attains it and decodes to a feasible optimal solution, with strict "
      "weights every ground state does; problem-specific and inherited solve_bruteforce are feasible and optimal (all_solutions: exactly "
      "the optima). Ground states are computed by TLC, never by the repository's solver.",
      "small instances only (encodings with <= 11 variables quick, 13 thorough, plus hand-picked 15-variable instances; ~300 / 1500 instances); weighted GraphPartitioning and "
      "SetCover instances beyond half-integer weights are not generated; trusted: TLC, the per-class decoders of the harness (which only "
      "translate the implementation's output into index sets)",
      "problem semantics written in TLA+; real encodings evaluated by TLC over all assignments", "DESIGN 3 C10")
check("C16", "exploration",
      "Design: the transcribed penalties of Constraints.tla are linear in the weight (LamLinear, TLC, every polynomial over two labels). "
      "Code: seeded scenarios (comparison constraints of all six relations incl. special shapes / bounds / log_trick, the sixteen gate "
      "constraints, and to_qubo/quso/pubo/puso with a symbolic penalty) are built three ways - with a sympy Symbol, then subs(symbol -> c), "
      "and directly with c in {1,2,3,1/2}; spec/CheckSubs.tla (TLC) asserts: substituted = direct (terms pinned), same class, same "
      "recorded constraints, the symbolic coefficients (affine pairs c0 + c1*lam extracted with sympy) evaluate at c to the direct model, "
      "and subs left the symbolic model unchanged.",
      "500 quick / 4000 thorough scenarios over <= 4 labels; models whose coefficients (not weights) are symbolic are not generated",
      "real models built symbolically and numerically; equality decided by TLC on exact rational records", "DESIGN 3 C16")

check("C08", "model_checking",
      "Seeded scenarios (objective over <= 3 labels; 1-2 comparison or gate constraints with weight (max f - min f) + extra; PCBO and "
      "PCSO) are built on the real classes and taken through to_pubo / to_puso / to_qubo / to_quso; spec/CheckCompose.tla (TLC) computes "
      "the feasible set and the constrained optimum from the constraints that were PASSED, re-establishes the antecedents (feasible, "
      "weights > max f - min f) and has one state per (scenario, form, assignment of ALL the form's variables): nothing lies below the "
      "constrained optimum, every minimiser converts (by the mapping; the implementation's convert_solution table must agree) to a "
      "feasible f-optimal assignment, the optimum is attained; solve_bruteforce() is feasible, valid and optimal; "
      "remove_ancilla_from_solution returns exactly the non-ancilla part. The design-level ingredients (PenaltyExact, Exact / "
      "NeverUndercut) are model-checked in C02/C03/C06/C01.",
      "bounded: <= 3 problem labels, forms with <= 10 (12 thorough) variables incl. constraint and reduction ancillas, 450 / 3000 scenarios; "
      "known finding F7 (constraint over a label without a term) is reported as KNOWN-FINDING; trusted: TLC, record encoder",
      "real penalised / reduced forms evaluated by TLC on every assignment against the constrained optimum computed in TLA+", "DESIGN 3 C08")


def build():
    props = [json.loads(l)["id"] for l in open(os.path.join(VERIF, "properties.jsonl"))]
    hooks_commits = []
    hc = os.path.join(VERIF, "hooks_commits.txt")
    if os.path.exists(hc):
        hooks_commits = [l.split()[0] for l in open(hc) if l.strip()]
    m = {"version": 1,
         "setup_cmd": "cd /verif && ./setup.sh",
         "hooks": {"guard": "JTIOSUE_QUBOVERT_VERIF",
                   "enable": "checks export JTIOSUE_QUBOVERT_VERIF=1 for the processes that run the library and rebuild the C "
                             "extension from /repo/qubovert/sim sources into /verif/.work on every run",
                   "baseline_off_cmd": BASELINE, "source_commits": hooks_commits, "add_only": True},
         "engines": [{"name": "tlc", "path": "/verif/spec", "serves_properties": sorted(CHECKS),
                      "kind_free_text": "explicit TLA+ specification checked with TLC; conformance by replaying spec behaviours "
                                        "into the code and validating recorded traces/records against the spec"}],
         "checks": [], "not_applicable": [],
         "notes": "Single entry point ./check <ID> --tier quick|thorough [--replay file]; exit 2 = machinery failure."}
    for pid in props:
        if pid in CHECKS:
            c = CHECKS[pid]
            m["checks"].append({
                "property_id": pid,
                "quick_cmd": "./check %s --tier quick" % pid,
                "thorough_cmd": "./check %s --tier thorough" % pid,
                "evidence_file": "/verif/evidence/%s.json" % pid,
                "replay_cmd_template": "./check %s --replay {path}" % pid,
                "engine": "tlc",
                "level_claimed": {"category": c["level"], "text": c["text"], "design_ref": c["design_ref"]},
                "level_note": c["note"], "technique": c["technique"]})
        else:
            m["not_applicable"].append({"property_id": pid,
                                        "reason": NOT_APPLICABLE.get(pid, "check not built yet (build in progress)")})
    with open(os.path.join(VERIF, "MANIFEST.json"), "w") as f:
        json.dump(m, f, indent=1)
    return m


if __name__ == "__main__":
    m = build()
    try:
        import jsonschema
        jsonschema.validate(m, json.load(open("/root/.vp/MANIFEST.schema.json")))
        print("MANIFEST valid;", len(m["checks"]), "checks")
    except ImportError:
        print("written (jsonschema not available here)")
