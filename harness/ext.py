"""EXT - extension of the specification beyond the listed properties (DESIGN 7): helper layer of qubovert.utils / sim.
Not in MANIFEST.json (the property list is fixed); run with ./check EXT.  Same machinery: records of real calls, clauses in
spec/CheckHelpers.tla evaluated by TLC."""
import json
import os
import warnings

from . import common
from .tlc import run_tlc

LEVEL = "exploration"


def blank(cid, op):
    return {"id": cid, "op": op, "raised": "", "raise_expected": False, "inp": [], "out": [], "same_container": True, "d": 0,
            "nbits": -1, "spin": False, "log_trick": True, "flag": False, "dflt": False, "terms": [], "name_ok": True, "offset": 0,
            "num_terms": 0, "max_index": -1, "matrix": False, "len_ok": True, "first_ok": True, "last_ok": True, "monotone": True,
            "lt": False, "le": False, "eq": False, "v1": 0, "v2": 0, "same_state": True, "same_flag": True}


def gen_records(rng, n):
    import numpy as np
    import qubovert as qv
    from qubovert import utils, sim
    from qubovert.sim import _anneal
    recs = []

    def add(rec, f):
        try:
            with warnings.catch_warnings():
                warnings.simplefilter("ignore")
                f(rec)
        except Exception as e:             # noqa
            rec["raised"] = type(e).__name__
        rec["id"] = len(recs)
        recs.append(rec)
    for _ in range(n):
        # containers
        k = rng.randint(0, 5)
        bits = [rng.choice([0, 1]) for _ in range(k)]
        form = rng.choice(["list", "tuple", "dict", "scalar"])
        for op, fn, conv in (("b2s", utils.boolean_to_spin, lambda b: b), ("s2b", utils.spin_to_boolean, lambda b: 1 - 2 * b)):
            r = blank(0, op)
            vals = [conv(b) for b in bits] if form != "scalar" else [conv(rng.choice([0, 1]))]

            def run(rec, fn=fn, vals=vals, form=form):
                rec["inp"] = list(vals)
                if form == "scalar":
                    o = fn(vals[0])
                    rec["out"], rec["same_container"] = [o], isinstance(o, int)
                elif form == "dict":
                    keys = ["k%d" % i for i in range(len(vals))]
                    o = fn(dict(zip(keys, vals)))
                    rec["out"], rec["same_container"] = [o[kk] for kk in keys], isinstance(o, dict) and list(o) == keys
                else:
                    arg = list(vals) if form == "list" else tuple(vals)
                    o = fn(arg)
                    rec["out"], rec["same_container"] = list(o), type(o) is type(arg)
            add(r, run)
        # decimal <-> boolean / spin
        d = rng.choice([0, 1, 2, 3, 5, 8, 13, 31, 32, 100, 255])
        nb = rng.choice([-1, -1, len(bin(d)) - 2, len(bin(d)), 9])
        spin = rng.random() < 0.5
        r = blank(0, "d2b")
        r.update({"d": d, "nbits": nb, "spin": spin})
        add(r, lambda rec, d=d, nb=nb, spin=spin: rec.update(out=list((utils.decimal_to_spin if spin else utils.decimal_to_boolean)(d, None if nb < 0 else nb))))
        r = blank(0, "d2b")
        r.update({"d": 6, "nbits": 2, "raise_expected": True})
        add(r, lambda rec: rec.update(out=list(utils.decimal_to_boolean(6, 2))))
        bits2 = [rng.choice([0, 1]) for _ in range(rng.randint(0, 7))]
        r = blank(0, "b2d")
        r.update({"spin": spin, "inp": [(1 - 2 * b) if spin else b for b in bits2]})
        add(r, lambda rec, spin=spin: rec.update(d=int((utils.spin_to_decimal if spin else utils.boolean_to_decimal)(tuple(rec["inp"])))))
        # num_bits
        v = rng.choice([0, 1, 2, 3, 4, 7, 8, 9, 100])
        lt = rng.random() < 0.5
        r = blank(0, "numbits")
        r.update({"d": v, "log_trick": lt})
        add(r, lambda rec, v=v, lt=lt: rec.update(out=[int(utils.num_bits(v, lt))]))
        r = blank(0, "numbits")
        r.update({"d": 0, "raise_expected": True})
        add(r, lambda rec: rec.update(out=[int(utils.num_bits(-1))]))
        # is_solution_spin
        sol = [rng.choice([1, 1, 0, -1]) for _ in range(rng.randint(0, 4))]
        dflt = rng.random() < 0.5
        asd = rng.random() < 0.5
        r = blank(0, "isspin")
        r.update({"inp": sol, "dflt": dflt})
        add(r, lambda rec, sol=sol, dflt=dflt, asd=asd: rec.update(flag=bool(utils.is_solution_spin(dict(enumerate(sol)) if asd else sol, dflt))))
        # integer_var
        nbv = rng.randint(0, 4)
        ltv = rng.random() < 0.5
        r = blank(0, "intvar")
        r.update({"nbits": nbv, "log_trick": ltv})

        def run_iv(rec, nbv=nbv, ltv=ltv):
            x = qv.integer_var("q", nbv, ltv)
            rec["terms"] = [[[str(a) for a in k], int(v)] for k, v in x.items()]
            rec["name_ok"] = x.name == "q" and all(k == ("q%d" % i,) for i, k in enumerate(sorted(x.keys())))
        add(r, run_iv)
        # props
        kind = rng.choice(["PUBOMatrix", "PUSOMatrix", "QUBOMatrix", "QUSOMatrix", "PUBO", "PCSO"])
        matrix = kind.endswith("Matrix")
        labs = [0, 2, 3] if matrix else ["a", "b", "c"]
        terms = {}
        for _k in range(rng.randint(0, 4)):
            key = tuple(sorted(rng.sample(labs, rng.randint(0, 2)), key=str))
            terms[key] = rng.choice([-2, 1, 3])
        r = blank(0, "props")
        r.update({"matrix": matrix, "spin": "S" in kind})

        def run_props(rec, kind=kind, terms=terms, matrix=matrix):
            cls = getattr(utils, kind) if matrix else getattr(qv, kind)
            m = cls(terms)
            rec["terms"] = [[[x if matrix else str(x) for x in k], int(v)] for k, v in m.items()]
            rec["offset"], rec["num_terms"] = int(m.offset), int(m.num_terms)
            mi = m.max_index
            rec["max_index"] = -1 if mi is None else int(mi)
        add(r, run_props)
        # schedules
        model = {(0, 1): rng.choice([-1, 2]), (1,): rng.choice([1, -3])}
        dur = rng.choice([1, 2, 5, 17])
        tr = rng.choice([None, (3.0, 0.5), (2.0, 2.0)])
        sname = rng.choice(["linear", "geometric"])
        r = blank(0, "schedule")

        def run_sched(rec, model=model, dur=dur, tr=tr, sname=sname):
            Ts = _anneal._create_spin_schedule(model, dur, tr, sname)
            T0, Tf = tr if tr is not None else sim.anneal_temperature_range(model, spin=True)
            rec["len_ok"] = len(Ts) == dur
            rec["first_ok"] = bool(np.isclose(Ts[0], T0))
            rec["last_ok"] = bool(dur == 1 or np.isclose(Ts[-1], Tf))
            rec["monotone"] = all(Ts[i] >= Ts[i + 1] - 1e-12 for i in range(len(Ts) - 1))
        add(r, run_sched)
        r = blank(0, "schedule")

        def run_sched2(rec):
            ex = [2.0, 0.0, 1.0]
            Ts = _anneal._create_spin_schedule({}, 5, None, ex)
            rec["len_ok"], rec["first_ok"], rec["last_ok"], rec["monotone"] = len(Ts) == 3, Ts == ex, isinstance(Ts, list), True
        add(r, run_sched2)
        r = blank(0, "schedule")
        r["raise_expected"] = True
        add(r, lambda rec: _anneal._create_spin_schedule({(0,): 1}, 5, (1.0, 2.0), "linear"))
        r = blank(0, "schedule")
        r["raise_expected"] = True
        add(r, lambda rec: _anneal._create_spin_schedule({(0,): 1}, 5, None, "cubic"))
        # AnnealResult ordering
        v1, v2 = rng.choice([1, 2, 3]), rng.choice([1, 2, 3])
        st1, st2 = {0: 1}, rng.choice([{0: 1}, {0: -1}])
        f1, f2 = True, rng.choice([True, False])
        r = blank(0, "arorder")
        r.update({"v1": v1, "v2": v2, "same_state": st1 == st2, "same_flag": f1 == f2})

        def run_ar(rec, v1=v1, v2=v2, st1=st1, st2=st2, f1=f1, f2=f2):
            a, b = sim.AnnealResult(st1, v1, f1), sim.AnnealResult(st2, v2, f2)
            rec["lt"], rec["le"], rec["eq"] = bool(a < b), bool(a <= b), bool(a == b)
        add(r, run_ar)
    return recs


def run(tier, out, replay=None):
    wd = common.workdir("ext")
    rng = common.rng_for(out.seed, "ext")
    try:
        recs = gen_records(rng, 1500 if tier == "thorough" else 200)
        out.add("evaluations", len(recs))
        out.set("distinct_nontrivial", len({json.dumps({k: v for k, v in r.items() if k != "id"}, sort_keys=True, default=str) for r in recs}))
        out.set("rule", "seeded calls of the helper layer (container conversions, decimal <-> boolean/spin, num_bits, is_solution_spin, integer_var, "
                        "offset/num_terms/max_index, _create_spin_schedule incl. error paths, AnnealResult ordering); every record non-trivial")
        out.set("ops", sorted({r["op"] for r in recs}))
        out.sample({k: recs[0][k] for k in ("op", "inp", "out")})
        rf = os.path.join(wd, "recs.ndjson")
        common.write_ndjson(rf, recs)
        r = run_tlc("CheckHelpers", "CheckHelpers.cfg", env={"QV_RECS": rf}, cont=True, timeout=1200, name="checkhelpers")
        out.add("states", r.distinct)
        seen = set()
        for v in r.viol_lines:
            clause, idx = v[1].strip('"'), int(v[2])
            if (idx, clause) in seen:
                continue
            seen.add((idx, clause))
            out.violation(clause, "%s %s" % (clause, recs[idx - 1]["op"]), recs[idx - 1], None)
        if r.violated and not r.viol_lines:
            out.violation(r.violated[0], r.violated[0], r.stdout[-1500:], None)
    finally:
        common.cleanup(wd)
