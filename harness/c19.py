"""C19 - models survive copy and info round trips and never alias their inputs.

spec/ModelObj.tla with the copy / copy-constructor / get_info+create_from_info / getter actions; behaviours replayed on the real
classes; spec/ModelObjTrace.tla validates: after EVERY operation every object that is not the target is unchanged in its full
projection (terms, caches, mapping, constraints, name) - so any aliasing between a copy, an info round trip, a getter result or
an operand and its origin shows up as soon as one side is mutated; info round trips reproduce type, terms, name, mapping,
ancilla count and constraints.  Argument immutability of the other library functions is observed call by call and asserted by
spec/CheckImmutable.tla."""
import copy
import os
import warnings

from . import c05, common
from .tlc import run_tlc

FAMILIES = [("pcbo", "PCBO", "PCBO", ["a", "b", "c"]), ("pcso", "PCSO", "PCSO", ["a", "b", "c"]),
            ("qubo", "QUBO", "PUBO", ["a", "b", "c"]), ("quso", "QUSO", "PUSO", ["a", "b", "c"]),
            ("bmat", "PUBOMatrix", "QUBOMatrix", [0, 2, 3]), ("smat", "PUSOMatrix", "QUSOMatrix", [0, 2, 3])]
TRACE_INVS = ["TermsMatch", "KindMatch", "ImplNoRaise", "ImplUnchangedOthers", "ImplInfoSame", "ImplCopySame", "ImplAncCovers", "ImplNoAlias",
              "ImplMappingInjective", "ImplUpperBounds",      # a copy / clone / round-tripped model stays a consistent model under later edits
              "NotStuck", "Drift"]


def immutability_records(rng, n):
    import qubovert as qv
    from qubovert import utils, sat, sim, problems
    recs = []

    def snap(x):
        return copy.deepcopy(x), type(x)

    def book(x):
        """everything observable about a model object besides its terms"""
        out_ = []
        for attr in ("variables", "mapping", "reverse_mapping", "degree", "num_binary_variables", "max_index", "num_ancillas", "name"):
            try:
                v = getattr(x, attr)
                out_.append(repr(sorted(v.items(), key=repr)) if isinstance(v, dict) else (repr(sorted(v, key=repr)) if isinstance(v, set) else repr(v)))
            except AttributeError:
                out_.append(None)
        return out_

    def same(x, s):
        try:
            return type(x) is s[1] and x == s[0] and (not hasattr(x, "constraints") or x.constraints == s[0].constraints) \
                and (not hasattr(x, "mapping") or x.mapping == s[0].mapping) and book(x) == book(s[0])
        except Exception:
            return False

    def call(fn_name, argkind, f, *args):
        snaps = [snap(a) for a in args]
        raised = ""
        res = None
        try:
            with warnings.catch_warnings():
                warnings.simplefilter("ignore")
                res = f(*args)
        except KeyError:
            raised = ""                    # documented KeyError of quadratic kinds is not an immutability matter
        except Exception as e:             # noqa
            raised = type(e).__name__
        unchanged = all(same(a, s) for a, s in zip(args, snaps))
        # the result is independent of the arguments: writing into it afterwards must not show in any of them
        try:
            from . import pure
            if res is not None:
                pure.scribble(res)
                try:
                    res *= 3
                    res -= 1
                except Exception:      # noqa
                    pass
        except Exception:              # noqa
            pass
        independent = all(same(a, s) for a, s in zip(args, snaps))
        recs.append({"fn": fn_name, "argkind": argkind, "unchanged": unchanged, "raised": raised, "independent": independent or not unchanged})

    labs = ["a", "b", "c", 3]
    for i in range(n):
        rng.shuffle(labs)
        quad_b = {(labs[0],): rng.choice([-2, 1]), (labs[0], labs[1]): rng.choice([-1, 2]), (): 1}
        cubic_b = dict(quad_b)
        cubic_b[(labs[0], labs[1], labs[2])] = rng.choice([-2, 3])
        for kind, cls, d, spin in [("dict", dict, quad_b, False), ("QUBO", qv.QUBO, quad_b, False), ("PUBO", qv.PUBO, cubic_b, False),
                                   ("PCBO", qv.PCBO, cubic_b, False), ("QUSO", qv.QUSO, quad_b, True), ("PUSO", qv.PUSO, cubic_b, True),
                                   ("PCSO", qv.PCSO, cubic_b, True),
                                   ("QUBOMatrix", utils.QUBOMatrix, {(0,): 1, (0, 2): -2, (): 3}, False),
                                   ("PUBOMatrix", utils.PUBOMatrix, {(0,): 1, (0, 2, 3): -2, (): 3}, False),
                                   ("QUSOMatrix", utils.QUSOMatrix, {(0,): 1, (0, 2): -2, (): 3}, True),
                                   ("PUSOMatrix", utils.PUSOMatrix, {(0,): 1, (0, 2, 3): -2, (): 3}, True)]:
            m = cls(d)
            if kind in ("PCBO", "PCSO"):
                m.add_constraint_le_zero({(labs[0],): 1, (labs[1],): 1, (): -1})
            if kind != "dict" and i % 2 == 1:
                # the argument is a model with history: a named model whose labels were renumbered and in which a term over one
                # more label came and went (bookkeeping that a callee might be tempted to tidy up)
                extra = 5 if kind.endswith("Matrix") else "gone"
                m[(extra,)] += 1
                m[(extra,)] -= 1
                if hasattr(m, "set_mapping"):
                    mp_ = m.mapping
                    m.set_mapping({k_: len(mp_) - 1 - v_ for k_, v_ in mp_.items()})
                try:
                    m.name = "model-%d" % i
                except Exception:      # noqa
                    pass
            if spin:
                call("puso_to_pubo", kind, utils.puso_to_pubo, m)
                call("solve_puso_bruteforce", kind, utils.solve_puso_bruteforce, m)
                call("puso_value", kind, lambda mm: utils.puso_value({**{l: 1 for l in labs}, 0: 1, 1: 1, 2: 1, 3: 1}, mm), m)
                call("approximate_puso_extrema", kind, utils.approximate_puso_extrema, m)
                call("anneal_puso", kind, lambda mm: sim.anneal_puso(mm, num_anneals=1, anneal_duration=3, seed=1), m)
                if kind in ("dict", "QUSO", "QUSOMatrix"):
                    call("quso_to_qubo", kind, utils.quso_to_qubo, m)
                    call("solve_quso_bruteforce", kind, utils.solve_quso_bruteforce, m)
                    call("anneal_quso", kind, lambda mm: sim.anneal_quso(mm, num_anneals=1, anneal_duration=3, seed=1), m)
            else:
                call("pubo_to_puso", kind, utils.pubo_to_puso, m)
                call("solve_pubo_bruteforce", kind, utils.solve_pubo_bruteforce, m)
                call("pubo_value", kind, lambda mm: utils.pubo_value({**{l: 1 for l in labs}, 0: 1, 1: 1, 2: 1, 3: 1}, mm), m)
                call("approximate_pubo_extrema", kind, utils.approximate_pubo_extrema, m)
                call("anneal_pubo", kind, lambda mm: sim.anneal_pubo(mm, num_anneals=1, anneal_duration=3, seed=1), m)
                call("sat.NOT", kind, sat.NOT, m)
                call("sat.AND", kind, lambda mm: sat.AND(mm, labs[2]), m)
                call("sat.OR", kind, lambda mm: sat.OR(labs[2], mm), m)
                call("sat.XOR", kind, lambda mm: sat.XOR(mm, mm), m)
                for g in ("BUFFER", "AND", "OR", "XOR", "NAND", "NOR", "XNOR"):
                    call("sat.%s/1" % g, kind, lambda mm, gg=g: getattr(sat, gg)(mm), m)
                if kind in ("dict", "QUBO", "QUBOMatrix"):
                    call("qubo_to_quso", kind, utils.qubo_to_quso, m)
                    call("solve_qubo_bruteforce", kind, utils.solve_qubo_bruteforce, m)
                    call("anneal_qubo", kind, lambda mm: sim.anneal_qubo(mm, num_anneals=1, anneal_duration=3, seed=1), m)
            if not kind.endswith("Matrix"):
                call("subvalue", kind, lambda mm: utils.subvalue({labs[0]: 1}, mm), m)
                call("subgraph", kind, lambda mm: utils.subgraph(mm, {labs[0], labs[1]}, {labs[2]: 1}), m)
            else:
                call("subvalue", kind, lambda mm: utils.subvalue({0: 1}, mm), m)
                call("subgraph", kind, lambda mm: utils.subgraph(mm, {0, 2}, {3: 1}), m)
            if kind.endswith("Matrix"):
                call(kind + ".solve_bruteforce", kind, lambda mm: mm.solve_bruteforce(), m)
                call(kind + ".copy", kind, lambda mm: mm.copy(), m)
                continue
            if kind != "dict":
                for meth in ("to_qubo", "to_quso", "to_pubo", "to_puso", "to_enumerated", "solve_bruteforce", "copy"):
                    call(kind + "." + meth, kind, lambda mm, me=meth: getattr(mm, me)(), m)
                call(kind + ".__add__", kind, lambda mm, dd: mm + dd, m, dict(d))
                call(kind + ".__mul__", kind, lambda mm, dd: mm * dd, m, dict(d))
                call(kind + ".__rsub__", kind, lambda mm, dd: dd - mm, m, dict(d))
                call(kind + ".subs", kind, lambda mm: mm.subs({}), m)
            # constraint methods must not mutate the polynomial passed in
            for rel in ("eq", "ne", "lt", "le", "gt", "ge"):
                P = {(labs[0],): rng.choice([1, 2]), (labs[1],): rng.choice([-1, 1]), (): rng.choice([-1, 0])}
                for argkind, arg in (("dict", dict(P)), ("PUBO/PUSO", (qv.PUSO if spin else qv.PUBO)(P))):
                    H = (qv.PCSO if spin else qv.PCBO)()
                    call("add_constraint_%s_zero" % rel, argkind, lambda a, HH=H, r=rel: getattr(HH, "add_constraint_%s_zero" % r)(a), arg)
        # degenerate arguments: a constant-only or empty objective (with a name and, for the constrained classes, a constraint
        # recorded at weight zero) - the early-return paths of solvers and converters must leave the argument alone too
        for d0 in ({(): rng.choice([-3, 2, 5])}, {}):
            for kind, cls, spin in [("dict", dict, False), ("dict", dict, True), ("QUBO", qv.QUBO, False), ("PUBO", qv.PUBO, False),
                                    ("PCBO", qv.PCBO, False), ("QUSO", qv.QUSO, True), ("PUSO", qv.PUSO, True), ("PCSO", qv.PCSO, True),
                                    ("QUBOMatrix", utils.QUBOMatrix, False), ("PUBOMatrix", utils.PUBOMatrix, False),
                                    ("QUSOMatrix", utils.QUSOMatrix, True), ("PUSOMatrix", utils.PUSOMatrix, True)]:
                m = cls(d0)
                if kind in ("PCBO", "PCSO"):
                    m.add_constraint_eq_zero({(labs[0],): 1, (): -1 if spin else 0}, lam=0)
                    m.name = "const-%d" % i
                akind = kind + ("/constant" if d0 else "/empty")
                pre = "puso" if spin else "pubo"
                for alls in (False, True):
                    call("solve_%s_bruteforce" % pre, akind, lambda mm, a=alls, f=getattr(utils, "solve_%s_bruteforce" % pre): f(mm, a), m)
                    if kind in ("dict", "QUBO", "QUSO", "QUBOMatrix", "QUSOMatrix"):
                        q = "quso" if spin else "qubo"
                        call("solve_%s_bruteforce" % q, akind, lambda mm, a=alls, f=getattr(utils, "solve_%s_bruteforce" % q): f(mm, a), m)
                    if kind != "dict":
                        call(kind + ".solve_bruteforce", akind, lambda mm, a=alls: mm.solve_bruteforce(a), m)
                call("%s_value" % pre, akind, lambda mm, f=getattr(utils, "%s_value" % pre): f({}, mm), m)
                call("approximate_%s_extrema" % pre, akind, getattr(utils, "approximate_%s_extrema" % pre), m)
                call("puso_to_pubo" if spin else "pubo_to_puso", akind, utils.puso_to_pubo if spin else utils.pubo_to_puso, m)
                if kind != "dict":
                    call(kind + ".copy", akind, lambda mm: mm.copy(), m)
                if kind != "dict" and not kind.endswith("Matrix"):
                    for meth in ("to_qubo", "to_quso", "to_pubo", "to_puso", "to_enumerated"):
                        call(kind + "." + meth, akind, lambda mm, me=meth: getattr(mm, me)(), m)
                    call(kind + ".subs", akind, lambda mm: mm.subs({}), m)
        for g in ("AND", "OR", "XOR", "NAND", "NOR", "XNOR"):
            e = qv.PUBO({(labs[0], labs[1]): 1})
            H = qv.PCBO()
            call("add_constraint_" + g, "PUBO operand", lambda a, HH=H, gg=g: getattr(HH, "add_constraint_" + gg)(a, labs[2]), e)
            H2 = qv.PCBO()
            call("add_constraint_eq_" + g, "PUBO operand", lambda a, HH=H2, gg=g: getattr(HH, "add_constraint_eq_" + gg)(labs[3], a, labs[2]), e)
        # problems
        sets = [{0, 1}, {1, 2}, {2}]
        call("SetCover", "list of sets", lambda u, v: problems.SetCover(u, v).to_qubo(), {0, 1, 2}, sets)
        edges = {(0, 1), (1, 2)}
        call("VertexCover", "edge set", lambda e: problems.VertexCover(e).to_quso(), edges)
        call("GraphPartitioning", "edge set", lambda e: problems.GraphPartitioning(e).to_qubo(), edges)
        call("NumberPartitioning", "list", lambda s: problems.NumberPartitioning(s).to_quso(), [1, 2, 3])
    return recs


def run(tier, out, replay=None):
    thorough = tier == "thorough"
    c05.generic_run(tier, out, "c19", FAMILIES, "AliasOps", TRACE_INVS, ["StoredCanonical", "AncCovers"], sim_n=(150, 1500), sim_depth=12,
                    walk_fams=("pcbo",), walk_budget=(10000, 300000), mc_depth=(3, 4), replay=replay)
    if replay:
        return
    wd = common.workdir("c19imm")
    try:
        # directed histories between two objects of ONE class (one weight per operation): merges, copies, clones, round trips and
        # constraints in every order, validated step by step like the generated ones
        from . import c14, modelobj
        drng = common.rng_for(out.seed, "c19dir")
        for name, k1, k2 in (("pcbo2d", "PCBO", "PCBO"), ("pcso2d", "PCSO", "PCSO")):
            labels4 = ["a", "b", "c", "d"]
            base = c14.directed_histories(drng, 2500 if thorough else 300, labels4, constrained=True, kinds=(k1, k2), length=6)
            ops_list = []
            for ops in base:
                # sprinkle the C19 operations in: clone by constructor, info round trip, getter probe
                extra = drng.choice([["ctor", 1, 2], ["ctor", 2, 1], ["info", 1, 2], ["info", 2, 1], ["poke", 1], ["poke", 2], ["copy", 1, 2]])
                pos = drng.randint(0, len(ops))
                ops_list.append([o for o in (ops[:pos] + [extra] + ops[pos:]) if o[0] != "toenum"])
            out.add("directed_histories", len(ops_list))
            pl, desc = c14.py_labels(drng, labels4)
            codec = modelobj.LabelCodec(labels4, pl)
            traces = modelobj.replay(ops_list, [k1, k2], codec)
            for t in traces:
                t["py_labels"] = desc
            c14.validate(out, wd, traces, (name, k1, k2, labels4), "directed", invs=TRACE_INVS)
        rng = common.rng_for(out.seed, "c19imm")
        recs = immutability_records(rng, 12 if thorough else 2)
        out.set("immutability_calls", len(recs))
        out.set("immutability_functions", len({r["fn"] for r in recs}))
        rf = os.path.join(wd, "imm.ndjson")
        common.write_ndjson(rf, recs)
        r = run_tlc("CheckImmutable", "CheckImmutable.cfg", env={"QV_RECS": rf}, cont=True, timeout=600, name="immutable")
        for v in r.viol_lines:
            rec = recs[int(v[2]) - 1]
            out.violation(v[1].strip('"'), "%s %s(%s)" % (v[1].strip('"'), rec["fn"], rec["argkind"]), rec, None)
        out.assumptions += ["aliasing is detected when one side is subsequently mutated by one of the generated operations or by the getter probe",
                            "argument immutability is an observation per call (deep snapshot, ==, constraints, mapping), asserted by TLC"]
    finally:
        common.cleanup(wd)
