"""Drives the real model classes along histories generated from spec/ModelObj.tla and records, after
every operation, the projection of both objects that spec/ModelObjTrace.tla validates.
Used by C14 (bookkeeping), C05 (arithmetic) and C19 (copies / aliasing)."""
import copy
import math
import re
import warnings

BAD = -99999
_ANC = re.compile(r"^__a(\d+)$")


def classes():
    import qubovert as qv
    from qubovert import utils
    return {"QUBO": qv.QUBO, "QUSO": qv.QUSO, "PUBO": qv.PUBO, "PUSO": qv.PUSO, "PCBO": qv.PCBO, "PCSO": qv.PCSO,
            "QUBOMatrix": utils.QUBOMatrix, "QUSOMatrix": utils.QUSOMatrix, "PUBOMatrix": utils.PUBOMatrix,
            "PUSOMatrix": utils.PUSOMatrix}


LABELLED = {"QUBO", "QUSO", "PUBO", "PUSO", "PCBO", "PCSO"}
CONSTR = {"PCBO", "PCSO"}
SPIN = {"QUSO", "PUSO", "PCSO", "QUSOMatrix", "PUSOMatrix"}


class HarnessError(Exception):
    pass


class LabelCodec:
    """spec label (string 'a','b',.. or int) <-> Python label"""

    def __init__(self, spec_labels, py_labels=None):
        self.to_py = {}
        self.to_spec = {}
        for i, sl in enumerate(spec_labels):
            pl = py_labels[i] if py_labels is not None else sl
            self.to_py[sl] = pl
            self.to_spec[(type(pl).__name__, pl)] = sl

    def py(self, sl):
        if sl in self.to_py:
            return self.to_py[sl]
        return sl                         # ancilla names and ints pass through

    def spec(self, pl):
        k = (type(pl).__name__, pl)
        if k in self.to_spec:
            return self.to_spec[k]
        if isinstance(pl, str) and (_ANC.match(pl) or pl == "__poked__"):
            return pl
        if isinstance(pl, int) and not isinstance(pl, bool):
            return pl
        return "?%r" % (pl,)


def as_int(v):
    if isinstance(v, bool):
        return BAD
    if isinstance(v, int):
        return v if abs(v) < (1 << 30) else BAD
    if isinstance(v, float) and v == int(v) and abs(v) < (1 << 30):
        return int(v)
    try:
        import numpy as np
        if isinstance(v, (np.integer,)):
            return int(v)
        if isinstance(v, np.floating) and float(v) == int(v):
            return int(v)
    except ImportError:
        pass
    return BAD


def project(obj, codec):
    kind = type(obj).__name__
    try:
        ts = [[[codec.spec(x) for x in k], as_int(v)] for k, v in dict.items(obj)]
    except Exception:
        ts = [[["?"], BAD]]
    try:
        vs = sorted((codec.spec(x) for x in obj.variables), key=lambda x: (str(type(x)), x))
    except Exception:
        vs = ["?"]
    try:
        nv = as_int(obj.num_binary_variables)
    except Exception:
        nv = BAD
    try:
        d = obj.degree
        deg = -1 if (isinstance(d, float) and math.isinf(d) and d < 0) else as_int(d)
    except Exception:
        deg = BAD
    mp, rv = [], []
    if kind in LABELLED:
        try:
            mp = [[codec.spec(k), as_int(v)] for k, v in obj.mapping.items()]
            rv = [[as_int(k), codec.spec(v)] for k, v in obj.reverse_mapping.items()]
        except Exception:
            mp, rv = [["?", BAD]], []
    anc, ncons, cons = 0, 0, []
    if kind in CONSTR:
        try:
            anc = as_int(obj.num_ancillas)
            cd = obj.constraints
            ncons = sum(len(v) for v in cd.values())
            for rel in sorted(cd):
                for p in cd[rel]:
                    cons.append([rel, [[[codec.spec(x) for x in k], as_int(v)] for k, v in dict.items(p)], type(p).__name__])
        except Exception:
            anc, ncons, cons = BAD, BAD, []
    try:
        name = obj.name
        name = "" if name is None else repr(name)
    except Exception:
        name = "?"
    poked = "__poked__" in repr([ts, vs, mp, rv, cons])
    return {"kind": kind, "ts": ts, "vars": vs, "nvars": nv, "deg": deg, "map": mp, "rev": rv, "anc": anc, "ncons": ncons,
            "cons": cons, "name": name, "poked": poked}


def anc_indices(obj):
    out = set()
    try:
        for x in obj.variables:
            if isinstance(x, str):
                m = _ANC.match(x)
                if m:
                    out.add(int(m.group(1)))
    except Exception:
        pass
    return out


class ModelReplayer:
    def __init__(self, kinds, codec):
        self.cls = classes()
        self.codec = codec
        self.slots = {i + 1: self.cls[k]() for i, k in enumerate(kinds)}
        self.slots[1].name = "n1"
        self.slots[2].name = 0               # a falsy name that is not None must survive an info round trip too
        self.kinds = list(kinds)

    def key(self, k):
        return tuple(self.codec.py(x) for x in k)

    def lit(self, items):
        d = {}
        for k, v in items:
            d[self.key(k)] = v           # raw keys are distinct tuples; insertion order = item order
        return d

    def operand(self, j, lit):
        return self.lit(lit) if j == 0 else self.slots[j]

    def snapshot(self):
        return [project(self.slots[1], self.codec), project(self.slots[2], self.codec)]

    def apply(self, op):
        op = [list(x[1]) if isinstance(x, tuple) and len(x) == 2 and x[0] == "set" else x for x in op]   # TLA+ sets -> lists
        name, a = op[0], op[1:]
        sl = self.slots
        raised, out, new_anc, cert_z = "", [], [], []
        values, info_equal = [], True
        before_anc = anc_indices(sl[a[0]]) if name == "addcons" else set()
        try:
            with warnings.catch_warnings():
                warnings.simplefilter("ignore")
                if name == "setitem":
                    sl[a[0]][self.key(a[1])] = a[2]
                elif name == "augadd":
                    sl[a[0]][self.key(a[1])] += a[2]
                elif name == "iadd":
                    x = sl[a[0]]
                    x += self.operand(a[1], a[2])
                    sl[a[0]] = x
                elif name == "isub":
                    x = sl[a[0]]
                    x -= self.operand(a[1], a[2])
                    sl[a[0]] = x
                elif name == "update":
                    sl[a[0]].update(self.operand(a[1], a[2]))
                elif name == "imul":
                    x = sl[a[0]]
                    x *= self.operand(a[1], a[2])
                    sl[a[0]] = x
                elif name == "iadd_scalar":
                    x = sl[a[0]]
                    x += a[1]
                    sl[a[0]] = x
                elif name == "imul_scalar":
                    x = sl[a[0]]
                    x *= a[1]
                    sl[a[0]] = x
                elif name == "isub_scalar":
                    x = sl[a[0]]
                    x -= a[1]
                    sl[a[0]] = x
                elif name == "idiv":
                    x = sl[a[0]]
                    x /= a[1]
                    sl[a[0]] = x
                elif name == "ipow":
                    x = sl[a[0]]
                    x **= a[1]
                    sl[a[0]] = x
                elif name == "clear":
                    sl[a[0]].clear()
                elif name == "refresh":
                    sl[a[0]].refresh()
                elif name == "copy":
                    sl[a[1]] = sl[a[0]].copy()
                elif name == "new":
                    sl[a[0]] = type(sl[a[0]])(self.lit(a[1]))
                elif name == "addcons":
                    obj = sl[a[0]]
                    x, v = self.codec.py(a[1]), a[2]
                    spin = type(obj).__name__ in SPIN
                    # (relation, polynomial) per variant; see AncCount in ModelObj.tla
                    if spin:
                        table = {0: ("eq", {(x,): 1, (): -1}), 1: ("le", {(x,): 1}), 2: ("le", {(x,): 2, (): -1}),
                                 3: ("ge", {(x,): -1}), 4: ("lt", {(x,): 1, (): -1}), 5: ("ne", {(x,): 1})}
                    else:
                        table = {0: ("eq", {(x,): 1, (): -1}), 1: ("le", {(x,): 2, (): -1}), 2: ("le", {(x,): 4, (): -3}),
                                 3: ("ge", {(x,): -2, (): 1}), 4: ("lt", {(x,): 2, (): -2}), 5: ("ne", {(x,): 2, (): -1})}
                    rel, P = table[v]
                    import qubovert as _qv
                    form = (len(self.slots[1]) + len(self.slots[2]) + v) % 3        # deterministic variety: dict / PUBO|PUSO / PCBO|PCSO
                    arg = P if form == 0 else ((_qv.PUSO if spin else _qv.PUBO)(P) if form == 1 else (_qv.PCSO if spin else _qv.PCBO)(P))
                    kw = {}
                    if not spin and v == 1 and (len(self.slots[1]) + len(self.slots[2])) % 2 == 1:
                        # same single slack bit through the unary-slack special case (2x <= 1 with min(2x) = 0)
                        kw["log_trick"] = False
                    getattr(obj, "add_constraint_%s_zero" % rel)(arg, lam=2, **kw)
                    # the recorded constraint must not alias the argument: mutate the argument afterwards
                    arg[("__poked__",)] = 3
                    new_anc = sorted(anc_indices(obj) - before_anc)
                elif name == "bin":
                    s_, nm_, j_, lit_, d_, refl_ = a
                    left, right = sl[s_], self.operand(j_, lit_)
                    if refl_:
                        left, right = right, left
                    res = left + right if nm_ == "add" else (left - right if nm_ == "sub" else left * right)
                    sl[d_] = res
                elif name == "binscalar":
                    s_, nm_, c_, d_, refl_ = a
                    left, right = sl[s_], c_
                    if refl_:
                        left, right = right, left
                    res = left + right if nm_ == "add" else (left - right if nm_ == "sub" else left * right)
                    sl[d_] = res
                elif name == "neg":
                    sl[a[1]] = -sl[a[0]]
                elif name == "pow":
                    sl[a[2]] = sl[a[0]] ** a[1]
                elif name == "div":
                    sl[a[2]] = sl[a[0]] / a[1]
                elif name == "mulraise":
                    res = sl[a[0]] * self.operand(a[1], a[2])
                    sl[a[3]] = res                     # only reached if no KeyError was raised
                elif name == "value":
                    obj = sl[a[0]]
                    values = self.evaluate(obj, a[1])
                elif name == "var":
                    sl[a[0]] = type(sl[a[0]]).create_var(self.codec.py(a[1]))
                elif name == "setmap":
                    m = sl[a[0]].mapping
                    n = len(m)
                    given = {k: (n - 1 - v if a[1] == "rev" else (v + 1) % n) for k, v in m.items()}
                    sl[a[0]].set_mapping(given)
                    given["__poked__"] = 98            # the caller's dict stays the caller's (shows up as `poked` if aliased)
                elif name == "poke":
                    self.poke(sl[a[0]])
                elif name == "ctor":
                    sl[a[1]] = type(sl[a[0]])(sl[a[0]])
                elif name == "info":
                    from qubovert.utils import get_info, create_from_info
                    i1 = get_info(sl[a[0]])
                    new = create_from_info(i1)
                    info_equal = bool(get_info(new) == get_info(sl[a[0]]))
                    # the info dictionary must not be aliased by the model created from it (nor by the source model)
                    try:
                        if isinstance(i1.get("mapping"), dict):
                            i1["mapping"]["__poked__"] = 99
                        i1["terms"][("__poked__",)] = 7
                        for ps in (i1.get("constraints") or {}).values():
                            for p in ps:
                                p[("__poked__",)] = 5
                            ps.append({("__poked__",): 1})
                    except Exception:
                        pass
                    sl[a[1]] = new
                elif name == "toenum":
                    obj = sl[a[0]]
                    import os
                    from qubovert import _pubo
                    os.environ["JTIOSUE_QUBOVERT_VERIF"] = "1"
                    del _pubo._VERIF_CERTS[:]
                    if a[1]:
                        res = obj.to_qubo()       # the reduced BOOLEAN form, also of spin models (integer coefficients)
                    else:
                        res = obj.to_enumerated()
                    # ancilla labels the reduction says it created (hook H1)
                    for cert in _pubo._VERIF_CERTS:
                        for t in cert["terms"]:
                            for (x, y, z, fresh, lam) in t["steps"]:
                                if fresh:
                                    cert_z.append(z if isinstance(z, int) and not isinstance(z, bool) else BAD)
                    del _pubo._VERIF_CERTS[:]
                    out = [[[x if isinstance(x, int) and not isinstance(x, bool) else BAD for x in k], as_int(v)]
                           for k, v in dict.items(res)]
                else:
                    raise HarnessError("harness: unknown op %r" % (op,))
        except HarnessError:
            raise
        except Exception as e:                  # noqa: the exception is the observation
            raised = type(e).__name__
        try:
            eq = [bool(sl[1] == sl[2]), bool(sl[2] == sl[1]), bool(sl[1] != sl[2])]
        except Exception:      # noqa
            eq = [None, None, None]
        return {"op": list(op), "raised": raised, "slots": self.snapshot(), "out": out, "new_anc": new_anc, "cert_z": cert_z, "eq": eq,
                "values": values, "info_equal": info_equal}


def _evaluate(self, obj, ones):
    """every public way of evaluating `obj` at the assignment where the labels in `ones` are 1 (boolean) / -1 (spin)"""
    from qubovert import utils
    kind = type(obj).__name__
    spin = kind in SPIN
    ones = set(self.codec.py(x) for x in ones)
    labels = set(self.codec.to_py.values()) | set(obj.variables)
    sol = {l: ((-1 if l in ones else 1) if spin else (1 if l in ones else 0)) for l in labels}
    vals = [obj.value(sol)]
    fn = {"QUBO": utils.qubo_value, "QUSO": utils.quso_value, "PUBO": utils.pubo_value, "PUSO": utils.puso_value,
          "PCBO": utils.pubo_value, "PCSO": utils.puso_value, "QUBOMatrix": utils.qubo_value, "QUSOMatrix": utils.quso_value,
          "PUBOMatrix": utils.pubo_value, "PUSOMatrix": utils.puso_value}[kind]
    vals.append(fn(sol, obj))
    vals.append(fn(sol, dict(obj)))
    # the smallest legal assignment: exactly the labels the terms mention (a single label 0, '' or () included)
    need = {x for k in dict.keys(obj) for x in k}
    small = {l: sol[l] for l in need}
    vals.append(obj.value(small))
    vals.append(fn(small, obj))
    vals.append(fn(small, dict(obj)))
    if kind in ("QUBO", "QUBOMatrix"):
        vals.append(utils.pubo_value(sol, obj))
    if kind in ("QUSO", "QUSOMatrix"):
        vals.append(utils.puso_value(sol, obj))
    if kind not in LABELLED and all(isinstance(l, int) for l in labels) and labels:
        n = max(labels) + 1
        seq = [((-1 if i in ones else 1) if spin else (1 if i in ones else 0)) for i in range(n)]
        vals.append(obj.value(seq))
        vals.append(fn(tuple(seq), obj))
    return [as_int(v) for v in vals]


def _poke(self, obj):
    """fetch every copy-returning property and mutate what comes back; the model must not notice"""
    kind = type(obj).__name__
    v = obj.variables
    v.add("__poked__")
    if kind in LABELLED:
        # set_mapping must copy what it is given
        given = obj.mapping
        obj.set_mapping(given)
        given["__poked__"] = 98
        m = obj.mapping
        m["__poked__"] = 99
        for k in list(m):
            m[k] = 77
        r = obj.reverse_mapping
        r[99] = "__poked__"
        r.clear()
    if kind in CONSTR:
        c = obj.constraints
        for rel, ps in c.items():
            for p in ps:
                p[("__poked__",)] = 5
            ps.append({("__poked__",): 1})
        c["zz"] = []


ModelReplayer.evaluate = _evaluate
ModelReplayer.poke = _poke


class EndOfHistory(Exception):
    """the generated history cannot be continued on the real objects within the harness's exact arithmetic"""


def replay(ops_list, kinds, codec):
    traces = []
    for tid, ops in enumerate(ops_list, 1):
        rp = ModelReplayer(kinds, codec)
        names = [project(rp.slots[1], codec)["name"], project(rp.slots[2], codec)["name"]]
        steps = []
        for op in ops:
            # the specification only continues a history from objects with small coefficients (32-bit integers in TLC): so
            # does the replay
            if any((not isinstance(v, (int, float))) or abs(v) > 100 for sl_ in (1, 2) for v in dict.values(rp.slots[sl_])):
                break
            if op[0] in ("idiv", "div"):
                # a division is only replayed while it is exact on the REAL coefficients (penalty terms of real constraint
                # methods are not the specification's): otherwise the history ends here, without a verdict
                vals = list(dict.values(rp.slots[op[1]]))
                if any((not isinstance(v, int)) or v % abs(op[2]) for v in vals):
                    break
            steps.append(rp.apply(op))
        traces.append({"tid": tid, "kinds": list(kinds), "names": names, "steps": steps})
    return traces
