"""Drives the real model classes along histories generated from spec/ModelObj.tla and records, after
every operation, the projection of both objects that spec/ModelObjTrace.tla validates.
Used by C14 (bookkeeping), C05 (arithmetic) and C19 (copies / aliasing)."""
import copy
import math
import re
import warnings

BAD = -99999
_ANC = re.compile(r"^__a(\d+)$")


def classes():
    import qubovert as qv
    from qubovert import utils
    return {"QUBO": qv.QUBO, "QUSO": qv.QUSO, "PUBO": qv.PUBO, "PUSO": qv.PUSO, "PCBO": qv.PCBO, "PCSO": qv.PCSO,
            "QUBOMatrix": utils.QUBOMatrix, "QUSOMatrix": utils.QUSOMatrix, "PUBOMatrix": utils.PUBOMatrix,
            "PUSOMatrix": utils.PUSOMatrix}


LABELLED = {"QUBO", "QUSO", "PUBO", "PUSO", "PCBO", "PCSO"}
CONSTR = {"PCBO", "PCSO"}
SPIN = {"QUSO", "PUSO", "PCSO", "QUSOMatrix", "PUSOMatrix"}


class HarnessError(Exception):
    pass


class LabelCodec:
    """spec label (string 'a','b',.. or int) <-> Python label"""

    def __init__(self, spec_labels, py_labels=None):
        self.to_py = {}
        self.to_spec = {}
        for i, sl in enumerate(spec_labels):
            pl = py_labels[i] if py_labels is not None else sl
            self.to_py[sl] = pl
            self.to_spec[(type(pl).__name__, pl)] = sl

    def py(self, sl):
        if sl in self.to_py:
            return self.to_py[sl]
        return sl                         # ancilla names and ints pass through

    def spec(self, pl):
        k = (type(pl).__name__, pl)
        if k in self.to_spec:
            return self.to_spec[k]
        if isinstance(pl, str) and _ANC.match(pl):
            return pl
        if isinstance(pl, int) and not isinstance(pl, bool):
            return pl
        return "?%r" % (pl,)


def as_int(v):
    if isinstance(v, bool):
        return BAD
    if isinstance(v, int):
        return v if abs(v) < (1 << 30) else BAD
    if isinstance(v, float) and v == int(v) and abs(v) < (1 << 30):
        return int(v)
    try:
        import numpy as np
        if isinstance(v, (np.integer,)):
            return int(v)
        if isinstance(v, np.floating) and float(v) == int(v):
            return int(v)
    except ImportError:
        pass
    return BAD


def project(obj, codec):
    kind = type(obj).__name__
    try:
        ts = [[[codec.spec(x) for x in k], as_int(v)] for k, v in dict.items(obj)]
    except Exception:
        ts = [[["?"], BAD]]
    try:
        vs = sorted((codec.spec(x) for x in obj.variables), key=lambda x: (str(type(x)), x))
    except Exception:
        vs = ["?"]
    try:
        nv = as_int(obj.num_binary_variables)
    except Exception:
        nv = BAD
    try:
        d = obj.degree
        deg = -1 if (isinstance(d, float) and math.isinf(d) and d < 0) else as_int(d)
    except Exception:
        deg = BAD
    mp, rv = [], []
    if kind in LABELLED:
        try:
            mp = [[codec.spec(k), as_int(v)] for k, v in obj.mapping.items()]
            rv = [[as_int(k), codec.spec(v)] for k, v in obj.reverse_mapping.items()]
        except Exception:
            mp, rv = [["?", BAD]], []
    anc, ncons = 0, 0
    if kind in CONSTR:
        try:
            anc = as_int(obj.num_ancillas)
            ncons = sum(len(v) for v in obj.constraints.values())
        except Exception:
            anc, ncons = BAD, BAD
    return {"kind": kind, "ts": ts, "vars": vs, "nvars": nv, "deg": deg, "map": mp, "rev": rv, "anc": anc, "ncons": ncons}


def anc_indices(obj):
    out = set()
    try:
        for x in obj.variables:
            if isinstance(x, str):
                m = _ANC.match(x)
                if m:
                    out.add(int(m.group(1)))
    except Exception:
        pass
    return out


class ModelReplayer:
    def __init__(self, kinds, codec):
        self.cls = classes()
        self.codec = codec
        self.slots = {i + 1: self.cls[k]() for i, k in enumerate(kinds)}
        self.kinds = list(kinds)

    def key(self, k):
        return tuple(self.codec.py(x) for x in k)

    def lit(self, items):
        d = {}
        for k, v in items:
            d[self.key(k)] = v           # raw keys are distinct tuples; insertion order = item order
        return d

    def operand(self, j, lit):
        return self.lit(lit) if j == 0 else self.slots[j]

    def snapshot(self):
        return [project(self.slots[1], self.codec), project(self.slots[2], self.codec)]

    def apply(self, op):
        name, a = op[0], op[1:]
        sl = self.slots
        raised, out, new_anc, cert_z = "", [], [], []
        before_anc = anc_indices(sl[a[0]]) if name == "addcons" else set()
        try:
            with warnings.catch_warnings():
                warnings.simplefilter("ignore")
                if name == "setitem":
                    sl[a[0]][self.key(a[1])] = a[2]
                elif name == "augadd":
                    sl[a[0]][self.key(a[1])] += a[2]
                elif name == "iadd":
                    x = sl[a[0]]
                    x += self.operand(a[1], a[2])
                    sl[a[0]] = x
                elif name == "isub":
                    x = sl[a[0]]
                    x -= self.operand(a[1], a[2])
                    sl[a[0]] = x
                elif name == "update":
                    sl[a[0]].update(self.operand(a[1], a[2]))
                elif name == "imul":
                    x = sl[a[0]]
                    x *= self.operand(a[1], a[2])
                    sl[a[0]] = x
                elif name == "iadd_scalar":
                    x = sl[a[0]]
                    x += a[1]
                    sl[a[0]] = x
                elif name == "imul_scalar":
                    x = sl[a[0]]
                    x *= a[1]
                    sl[a[0]] = x
                elif name == "ipow":
                    x = sl[a[0]]
                    x **= a[1]
                    sl[a[0]] = x
                elif name == "clear":
                    sl[a[0]].clear()
                elif name == "refresh":
                    sl[a[0]].refresh()
                elif name == "copy":
                    sl[a[1]] = sl[a[0]].copy()
                elif name == "addcons":
                    obj = sl[a[0]]
                    x, v = self.codec.py(a[1]), a[2]
                    spin = type(obj).__name__ in SPIN
                    # (relation, polynomial) per variant; see AncCount in ModelObj.tla
                    if spin:
                        table = {0: ("eq", {(x,): 1, (): -1}), 1: ("le", {(x,): 1}), 2: ("le", {(x,): 2, (): -1}),
                                 3: ("ge", {(x,): -1}), 4: ("lt", {(x,): 1, (): -1}), 5: ("ne", {(x,): 1})}
                    else:
                        table = {0: ("eq", {(x,): 1, (): -1}), 1: ("le", {(x,): 2, (): -1}), 2: ("le", {(x,): 4, (): -3}),
                                 3: ("ge", {(x,): -2, (): 1}), 4: ("lt", {(x,): 2, (): -2}), 5: ("ne", {(x,): 2, (): -1})}
                    rel, P = table[v]
                    getattr(obj, "add_constraint_%s_zero" % rel)(P, lam=2)
                    new_anc = sorted(anc_indices(obj) - before_anc)
                elif name == "toenum":
                    obj = sl[a[0]]
                    import os
                    from qubovert import _pubo
                    os.environ["JTIOSUE_QUBOVERT_VERIF"] = "1"
                    del _pubo._VERIF_CERTS[:]
                    if a[1]:
                        res = obj.to_quso() if type(obj).__name__ in SPIN else obj.to_qubo()
                    else:
                        res = obj.to_enumerated()
                    # ancilla labels the reduction says it created (hook H1)
                    for cert in _pubo._VERIF_CERTS:
                        for t in cert["terms"]:
                            for (x, y, z, fresh, lam) in t["steps"]:
                                if fresh:
                                    cert_z.append(z if isinstance(z, int) and not isinstance(z, bool) else BAD)
                    del _pubo._VERIF_CERTS[:]
                    out = [[[x if isinstance(x, int) and not isinstance(x, bool) else BAD for x in k], as_int(v)]
                           for k, v in dict.items(res)]
                else:
                    raise HarnessError("harness: unknown op %r" % (op,))
        except HarnessError:
            raise
        except Exception as e:                  # noqa: the exception is the observation
            raised = type(e).__name__
        return {"op": list(op), "raised": raised, "slots": self.snapshot(), "out": out, "new_anc": new_anc, "cert_z": cert_z}


def replay(ops_list, kinds, codec):
    traces = []
    for tid, ops in enumerate(ops_list, 1):
        rp = ModelReplayer(kinds, codec)
        traces.append({"tid": tid, "kinds": list(kinds), "steps": [rp.apply(op) for op in ops]})
    return traces
