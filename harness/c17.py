"""C17 - the C annealing kernels are memory-safe on every valid call.

Design level: spec/Marshal.tla (TLC): every read/write of the wrapper and the kernels, for every model the front end can
marshal within the bounds, is inside its buffer.  Code level: calls generated over the same input space (plus larger random
ones and sequences of calls in one process) run against a clang ASan+UBSan build of the CURRENT sources; the real marshalled
arguments are checked against the spec's access predicates by spec/CheckMarshal.tla, which also asserts the observations
`no sanitizer report / no crash` and `result independent of earlier calls`."""
import json
import os
import re

from . import anneal_common as ac, c11, cbuild, common
from .tlc import run_tlc

SAN_RE = re.compile(r"(ERROR: AddressSanitizer[^\n]*|runtime error:[^\n]*|SUMMARY: [^\n]*Sanitizer[^\n]*|Segmentation fault|core dumped)")


def gen_calls(rng, n):
    calls = c11.gen_calls(rng, n)
    out = []
    for c in calls:
        if c["kwargs"].get("num_anneals", 1) < 1:
            c["kwargs"]["num_anneals"] = 1
        if "seed" not in c["kwargs"]:
            c["kwargs"]["seed"] = rng.randint(0, 10 ** 6)
        if rng.random() < 0.12:
            # the largest seeds a C int holds, with several anneals (any per-anneal arithmetic on the seed must not overflow)
            c["kwargs"]["seed"] = 2 ** 31 - 1 - rng.randint(0, 2)
            c["kwargs"]["num_anneals"] = max(c["kwargs"].get("num_anneals", 1), rng.choice([2, 3, 5]))
        # stale models: a reported variable that occurs in no term
        if c["kind"] != "dict" and rng.random() < 0.25:
            matrix = c["kind"].endswith("Matrix")
            used = [x for k, _ in c["terms"] for x in k]
            if matrix:
                lab = (max(used) + 1 + rng.randint(0, 1)) if used else rng.randint(0, 2)
            else:
                lab = "L%d" % len(c["labels"])
                c["labels"][lab] = repr("stale")
            c["post"] = [[[lab], 1], [[lab], 0]]
            if "initial_state" in c["kwargs"]:
                c["kwargs"].pop("initial_state")
        if c["terms"] and rng.random() < 0.1:
            c["den"] = c.get("den", 1) * 2 ** 43          # coefficients of the order 1e-13 at ordinary temperatures: exp(-dE/T) ~ 1
        if isinstance(c["kwargs"].get("schedule"), list) and c["kwargs"]["schedule"] and rng.random() < 0.1:
            c["kwargs"]["schedule"] = [rng.choice([1e300, 1e-300, 1e308]) if T_ > 0 else T_ for T_ in c["kwargs"]["schedule"]]
        if isinstance(c["kwargs"].get("schedule"), list) and rng.random() < 0.3:
            c[rng.choice(["sched_np", "sched_iter", "sched_tuple", "sched_range"])] = True      # every kind of iterable of floats
        if rng.random() < 0.2:
            c["in_order_form"] = rng.choice(["int", "np"])
        if c["kind"].endswith("Matrix") and "post" not in c and rng.random() < 0.3:
            c["warm_shrink"] = True       # the same Matrix object annealed before, when it was larger
        out.append(c)
    # sizes around the powers of two (and exactly 64 spins): Matrix models whose largest label fixes the size
    nid = max([c["id"] for c in out] + [0]) + 1
    for fn, kind in (("anneal_quso", "QUSOMatrix"), ("anneal_qubo", "QUBOMatrix"), ("anneal_puso", "PUSOMatrix"), ("anneal_pubo", "PUBOMatrix")):
        for top in (31, 32, 63, 64, 65, 127, 128):
            out.append({"id": nid, "fn": fn, "kind": kind, "terms": [[[0], 1], [[top], -1], [[0, top], 2], [[1, top // 2], -1]], "den": 1,
                        "labels": {}, "kwargs": {"schedule": [2.0, 1.0, 0.0], "in_order": nid % 2 == 0, "seed": nid, "num_anneals": 2},
                        "trace": False, "twice": False})
            nid += 1
    return out


def run_sanitized(calls, so, wd, tag, asan_rt):
    """returns {id: output}, {id: sanitizer report} (calls whose process died get the report)"""
    outs, reports = {}, {}
    remaining = list(calls)
    env = {"ASAN_OPTIONS": "detect_leaks=0:abort_on_error=0:halt_on_error=1:allocator_may_return_null=1",
           "UBSAN_OPTIONS": "print_stacktrace=1:halt_on_error=1"}
    rounds = 0
    while remaining and rounds < 40:
        rounds += 1
        rc, stdout, res = ac.run_driver(remaining, so, wd, "%s_%d" % (tag, rounds), preload=asan_rt, extra_env=env)
        for o in res:
            outs[o["id"]] = o
        done = {o["id"] for o in res}
        if len(done) == len(remaining):
            m = SAN_RE.search(stdout)
            if m and remaining:
                reports[remaining[-1]["id"]] = "report after the last call: " + m.group(1)
            break
        # the process died while running the first call without output
        crashed = next(c for c in remaining if c["id"] not in done)
        m = SAN_RE.findall(stdout)
        where = re.findall(r"#\d+ 0x[0-9a-f]+ in (\w+) [^\n]*?(anneal_\w+\.c:\d+|_canneal\.c:\d+)", stdout)
        reports[crashed["id"]] = (m[0] if m else "interpreter died (rc=%s)" % rc) + (" at " + where[0][1] if where else "")
        remaining = [c for c in remaining if c["id"] not in done and c["id"] != crashed["id"]]
    return outs, reports


def run(tier, out, replay=None):
    wd = common.workdir("c17")
    rng = common.rng_for(out.seed, "c17")
    thorough = tier == "thorough"
    try:
        asan_rt = cbuild.asan_runtime()
        if not asan_rt:
            raise common.Inexact("no ASan runtime")
        so_asan = cbuild.build("asan", sanitize=True)
        so_plain = cbuild.build("plain")
        if replay:
            calls = [json.load(open(replay))["record"]["call"]]
        else:
            r = run_tlc("Marshal", "Marshal.cfg", timeout=900, name="marshal")
            out.add("states", r.distinct)
            out.add("transitions", r.generated)
            if not r.ok:
                out.violation("spec:" + ",".join(r.violated), "spec-level " + ",".join(r.violated), r.stdout[-2500:])
            rn = run_tlc("Marshal", "Marshal_pinned.cfg", timeout=900, name="marshal_neg")
            out.set("negative_config_rejected", rn.violated)
            if "AllInBounds" not in rn.violated:
                out.notes.append("VACUITY WARNING: unguarded index[0] write not rejected")
            calls = gen_calls(rng, 8000 if thorough else 1200)
        outsA, reports = run_sanitized(calls, so_asan, wd, "san", asan_rt)
        # same calls, opposite order, fresh process, plain build: results must not depend on the history of the process
        rcB, stdoutB, resB = ac.run_driver(list(reversed([c for c in calls if c["id"] not in reports])), so_plain, wd, "rev")
        outsB = {o["id"]: o for o in resB}
        recs, kept = [], []
        for c in calls:
            oA, oB = outsA.get(c["id"]), outsB.get(c["id"])
            m = (oA or {}).get("marshal") or {}
            rec = {"id": c["id"], "kernel": m.get("kernel", "none"), "N": m.get("N", len(m.get("h", []))),
                   "h": [0] * len(m.get("h", [])), "nn": m.get("nn", []), "nb": m.get("nb", []), "J": [0] * len(m.get("J", [])),
                   "nc": m.get("nc", []), "tm": m.get("tm", []), "ncp": len(m.get("cp", [])),
                   "num_anneals": m.get("num_anneals", 0), "lenTs": len(m.get("Ts", [])), "lenInit": len(m.get("init", [])),
                   "san": reports.get(c["id"], ""),
                   "apiA": json.dumps((oA or {}).get("api"), sort_keys=True) if c["id"] not in reports else "",
                   "apiB": json.dumps((oB or {}).get("api"), sort_keys=True) if c["id"] not in reports else ""}
            recs.append(rec)
            kept.append(c)
        out.add("evaluations", len(recs))
        out.set("distinct_nontrivial", len({json.dumps([c["fn"], c["kind"], c["terms"], c.get("post")], sort_keys=True) for c in kept if c["terms"] or c.get("post")}))
        out.set("rule", "seeded generator: the C11 call space with num_anneals >= 1, plus stale models (a reported variable in no term), "
                        "all in ONE sanitized process (sequence of calls), then again in reverse order in a fresh process; non-trivial = the "
                        "model has a term or a stale variable; distinct by (function, type, model)")
        out.set("sanitizer_reports", len(reports))
        out.set("calls_reaching_C", sum(1 for r in recs if r["kernel"] != "none"))
        if recs:
            out.sample({"call": {k: kept[0][k] for k in ("fn", "kind", "terms", "kwargs")}, "marshalled": {k: recs[0][k] for k in ("kernel", "N", "nn", "nb", "nc", "tm")}})
            rf = os.path.join(wd, "recs.ndjson")
            common.write_ndjson(rf, recs)
            r = run_tlc("CheckMarshal", "CheckMarshal.cfg", env={"QV_RECS": rf}, cont=True, timeout=2400, name="checkmarshal")
            seen = set()
            for v in r.viol_lines:
                clause, idx = v[1].strip('"'), int(v[2])
                rec, call = recs[idx - 1], kept[idx - 1]
                if (idx, clause) in seen:
                    continue
                seen.add((idx, clause))
                shape = "no-terms" if rec["kernel"] == "puso" and not rec["nc"] else "with-terms"
                out.violation(clause, "%s %s kernel=%s %s" % (clause, call["fn"], rec["kernel"], shape),
                              {"sanitizer": rec["san"], "call": {k: call[k] for k in ("fn", "kind", "terms", "kwargs")}, "post": call.get("post")},
                              {"call": call})
            if r.violated and not r.viol_lines:
                out.violation(r.violated[0], r.violated[0], r.stdout[-1500:], None)
        out.assumptions += ["memory safety of the compiled code is OBSERVED by ASan/UBSan on the explored calls; undefined behaviour that neither the "
                            "access model nor the sanitizers exhibit on these calls is not excluded",
                            "uninitialised reads are not covered by ASan (valgrind pass only in the thorough tier when enabled)"]
    finally:
        common.cleanup(wd)
