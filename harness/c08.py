"""C08 - the constrained optimum survives penalisation, degree reduction and solution conversion."""
import copy
import itertools
import json
import os
import warnings

from . import c06, common, constraints as cs
from .tlc import run_tlc

MAXV = 10


def evalp(P, asg, spin):
    v = 0
    for k, c in P.items():
        t = c
        for x in k:
            t *= ((1 - 2 * asg[x]) if spin else asg[x])
        v += t
    return v


def gen_scenario(rng):
    spin = rng.random() < 0.4
    pl = list(rng.choice(common.LABEL_POOLS))
    rng.shuffle(pl)
    labels = pl[:3]
    f = cs.gen_poly(rng, labels, maxdeg=rng.choice([1, 2, 2, 3]), maxterms=3, coefs=(-2, -1, 1, 2), offset_p=0.3)
    steps = []
    for _ in range(rng.choice([1, 1, 2])):
        if spin or rng.random() < 0.6:
            lt = True if spin else rng.random() < 0.8
            if rng.random() < 0.4:
                P, rel = cs.special_poly(rng, labels, rng.choice(cs.SPECIAL_SHAPES))
            else:
                if lt:
                    # with the log trick wide and lopsided ranges stay cheap (few slack bits): up to three terms, |coef| <= 3
                    P = cs.gen_poly(rng, labels, maxdeg=rng.choice([1, 1, 1, 2]), maxterms=3,
                                    coefs=(-1, 1, 1, 2) if spin else (-3, -2, -1, 1, 2, 3), offset_p=0.5)
                else:
                    P = cs.gen_poly(rng, labels, maxdeg=rng.choice([1, 1, 2]), maxterms=2, coefs=(-1, 1, 2), offset_p=0.7)
                rel = rng.choice(cs.RELS)
            steps.append({"mode": "cmp", "P": P, "rel": rel, "lt": lt})
        else:
            gate = rng.choice(cs.GATES)
            geq = rng.random() < 0.4
            n_ops = 1 if gate in ("BUFFER", "NOT") else rng.choice([2, 2, 3])
            steps.append({"mode": "gate", "gate": gate, "geq": geq, "a": c06.operand(rng, labels) if geq else None,
                          "ops": [c06.operand(rng, labels) for _ in range(n_ops)]})
    if not spin and rng.random() < 0.2:
        # directed family: a lopsided three-term linear constraint with the objective pulling to one end of its range
        cs3 = [rng.choice([1, 2, 3]) * rng.choice([1, -1, -1]) for _ in labels]
        P = {(l,): c for l, c in zip(labels, cs3)}
        if rng.random() < 0.3:
            P[()] = rng.choice([-1, 1])
        steps = [{"mode": "cmp", "P": P, "rel": rng.choice(cs.RELS), "lt": True}]
        sgn = rng.choice([1, -1])
        f = {k: sgn * v for k, v in P.items() if k}
        return {"spin": spin, "labels": labels, "f": f, "steps": steps, "extra": rng.choice([1, 2, 0.5])}
    if len(steps) == 2 and not spin and rng.random() < 0.3:
        # the first of two constraints takes the unary-slack branch (log_trick = False, positive weights, negative constant):
        # whatever the second one needs must not collide with its ancillas
        w = [rng.choice([1, 2]) for _ in labels[:2]]
        P1 = {(l,): wi for l, wi in zip(labels[:2], w)}
        P1[()] = -rng.randint(2, sum(w)) if sum(w) >= 2 else -2
        steps[0] = {"mode": "cmp", "P": P1, "rel": "le", "lt": False}
    if rng.random() < 0.15:
        # small real coefficients: the objective in quarters, so that the weights may lie below 1
        f = {k: v / 4 for k, v in f.items()}
    # sometimes align the objective with a constrained polynomial so that the optimum sits at an extreme of its range
    # (where slack sizing matters)
    cmps = [st for st in steps if st["mode"] == "cmp"]
    if cmps and rng.random() < 0.35:
        sgn = rng.choice([1, -1])
        f = {k: sgn * v for k, v in cmps[0]["P"].items() if k}
        if not f:
            f = {(labels[0],): 1}
        if rng.random() < 0.5:
            k = (rng.choice(labels),)
            f[k] = f.get(k, 0) + rng.choice([-1, 1])
            if f[k] == 0:
                del f[k]
            if not f:
                f = {(labels[0],): 1}
    return {"spin": spin, "labels": labels, "f": f, "steps": steps, "extra": rng.choice([1, 2, 0.5]),
            "fork": rng.choice([None, None, "copy", "add0", "mul1", "ctor", "neg"]),
            "rebind": rng.choice([None, None, None, "copy", "add0", "mul1", "ctor", "neg", "refresh", "refresh"]),
            "remap": rng.random() < 0.25, "arg_form": rng.choice(["dict", "dict", "model", "pc"])}


def gate_like_scenarios():
    """directed, exhaustive family: equality constraints that ARE a gate identity (z = OR / NAND / NOR / AND of x, y) or merely look like
    one (the product sits on the wrong pair), times every assignment as the point the objective pulls towards"""
    z, x, y = "z", "x", "y"
    forms = [{(z,): 1, (x,): -1, (y,): -1, (x, y): 1}, {(z,): 1, (x,): -1, (y,): -1, (z, x): 1}, {(z,): 1, (x,): -1, (y,): -1, (z, y): 1},
             {(z,): 1, (): -1, (x, y): 1}, {(z,): 1, (): -1, (z, x): 1},
             {(z,): 1, (): -1, (x,): 1, (y,): 1, (x, y): -1}, {(z,): 1, (): -1, (x,): 1, (y,): 1, (z, x): -1},
             {(z,): 1, (x, y): -1}, {(z,): 1, (z, x): -1}]
    out = []
    for P in forms:
        for scale in (1, -2):
            for bits in itertools.product([0, 1], repeat=3):
                f = {(l,): (-1 if b else 1) for l, b in zip((z, x, y), bits)}
                out.append({"spin": False, "labels": [z, x, y], "f": f, "extra": 1, "fork": None,
                            "steps": [{"mode": "cmp", "P": {k: scale * v for k, v in P.items()}, "rel": "eq", "lt": True}]})
    # objectives with a large negative constant (whatever a solver derives from the coefficients must include it)
    for const in (-3, -10):
        for P, rel in (({("z",): 1, ("x",): 1, (): -1}, "le"), ({("z",): 1, ("x",): 1, ("y",): 1, (): -1}, "le"), ({("z",): 1, ("x",): -1}, "eq")):
            for sgn in (-1, 1):
                out.append({"spin": False, "labels": ["z", "x", "y"], "f": {("z",): sgn, ("x",): sgn, ("y",): sgn, (): const}, "extra": 1,
                            "fork": None, "steps": [{"mode": "cmp", "P": dict(P), "rel": rel, "lt": True}]})
                out.append({"spin": True, "labels": ["z", "x", "y"], "f": {("z",): sgn, ("x", "y"): sgn, (): const}, "extra": 2,
                            "fork": None, "steps": [{"mode": "cmp", "P": {("z",): 1, ("x",): 1}, "rel": "le", "lt": True}]})
    # at most one of n variables, with fractional weights and an objective that would rather set them all
    for n in (2, 3):
        for cq in (0.25, 0.5, 1):
            for extra in (0.25, 0.5):
                labs = ["u", "v", "w"][:n]
                P = {(l,): 1 for l in labs}
                P[()] = -1
                for rel, PP in (("le", P), ("ge", {k: -v for k, v in P.items()})):
                    out.append({"spin": False, "labels": ["u", "v", "w"], "f": {(l,): -cq for l in labs}, "extra": extra, "fork": None,
                                "steps": [{"mode": "cmp", "P": dict(PP), "rel": rel, "lt": True}]})
    return out


def holds(rel, v):
    return {"eq": v == 0, "ne": v != 0, "lt": v < 0, "le": v <= 0, "gt": v > 0, "ge": v >= 0}[rel]


def run_scenario(sc, sid, first_id):
    import qubovert as qv
    spin = sc["spin"]
    labels = sc["labels"]
    names = cs.Names(labels)
    recs = []
    # weights: strictly above max f - min f (the specification re-establishes this antecedent)
    vals = [evalp(sc["f"], dict(zip(labels, bits)), spin) for bits in itertools.product([0, 1], repeat=len(labels))]
    lam = (max(vals) - min(vals)) + sc["extra"]
    H = (qv.PCSO if spin else qv.PCBO)(sc["f"])
    raised = ""
    cons_rec = []
    unchanged = True
    try:
        with warnings.catch_warnings():
            warnings.simplefilter("ignore")
            for si_, st in enumerate(sc["steps"]):
                if sc.get("rebind") and si_ > 0:
                    H = cs.rebound(H, sc["rebind"])         # the scenario continues with an equal model derived from H
                if st["mode"] == "cmp":
                    # the polynomial is handed over as a dict or as a model object of the caller
                    form_ = sc.get("arg_form", "dict")
                    arg = dict(st["P"]) if form_ == "dict" else ((qv.PUSO if spin else qv.PUBO)(st["P"]) if form_ == "model"
                                                                  else (qv.PCSO if spin else qv.PCBO)(st["P"]))
                    snap = dict(arg)
                    kw = {"lam": lam}
                    if st["rel"] != "eq":
                        kw["log_trick"] = st["lt"]
                    getattr(H, "add_constraint_%s_zero" % st["rel"])(arg, **kw)
                    unchanged = unchanged and dict(arg) == snap
                    # what the caller does with its own polynomial afterwards must not reach the model
                    arg[()] = arg.get((), 0) + 7
                    arg[(labels[0],)] = arg.get((labels[0],), 0) + 3
                    cons_rec.append({"mode": "cmp", "rel": st["rel"], "P": list(st["P"].items()), "gate": "AND", "geq": False, "ga": [],
                                     "ops": [], "lam": lam})
                else:
                    args = []
                    for kind, val, poly in ([st["a"]] if st["geq"] else []) + list(st["ops"]):
                        args.append(val if kind == "label" else (dict(val) if kind == "dict" else qv.PUBO(val)))
                    getattr(H, "add_constraint_" + ("eq_" if st["geq"] else "") + st["gate"])(*args, lam=lam)
                    cons_rec.append({"mode": "gate", "rel": "eq", "P": [], "gate": st["gate"], "geq": st["geq"],
                                     "ga": list(st["a"][2].items()) if st["geq"] else [], "ops": [list(o[2].items()) for o in st["ops"]],
                                     "lam": lam})
            if sc.get("rebind"):
                H = cs.rebound(H, sc["rebind"])
            if sc.get("fork"):
                # a model derived from H is given further constraints; H itself must not notice (DESIGN 3, C03)
                try:
                    cs.fork_and_abuse(H, sc["fork"], labels[0], spin)
                except Exception:       # noqa
                    pass
            X = [l for l in labels]
            hvars = list(H.variables)
            # brute force on the model itself
            has_bf, bf, bf_valid, remove_ok = False, [], True, True
            on = -1 if spin else 1
            try:
                sol = H.solve_bruteforce()
                has_bf = True
                bf = [k for k, v in sol.items() if v == on]
                full = dict(sol)
                for l in X:
                    full.setdefault(l, (1 if spin else 0))
                bf_valid = bool(H.is_solution_valid(full))
                ra = H.remove_ancilla_from_solution(sol)
                remove_ok = ra == {k: v for k, v in sol.items() if not cs.is_anc(k)}
            except KeyError as e:
                raised = "KeyError in solve_bruteforce: %s" % str(e)[:60]
            if sc.get("remap") and not raised:
                # an earlier conversion, then the user renumbers the variables: later conversions and convert_solution follow
                # (placed after the brute force, which edits and restores the model's constant)
                try:
                    H.to_qubo()
                    H.to_puso()
                except Exception:       # noqa
                    pass
                mp = H.mapping
                H.set_mapping({k_: len(mp) - 1 - v_ for k_, v_ in mp.items()})
            forms = [("self", H, spin, None)]
            if not raised:
                for tgt, sp in (("pubo", False), ("puso", True), ("qubo", False), ("quso", True)):
                    forms.append((tgt, getattr(H, "to_" + tgt)(), sp, tgt))
    except Exception as e:                 # noqa
        raised = raised or (type(e).__name__ + ": " + str(e)[:120])
        forms = [("self", H, spin, None)]
        X, hvars, has_bf, bf, bf_valid, remove_ok = list(labels), [], False, [], True, True
    for fname, F, sp_tgt, tgt in forms:
        rec = {"id": first_id + len(recs), "scen": sid, "target": fname, "spin_src": spin, "spin_tgt": sp_tgt, "f": [], "form": [],
               "X": [], "map": [], "fvars": [], "cons": [], "conv": [], "conv_complete": False, "has_bf": False, "bf": [],
               "bf_valid": True, "remove_ok": True, "raised": raised, "unchanged": unchanged, "den": 1, "skip": False}
        try:
            fterms = [(tuple(k), v) for k, v in dict.items(F)]
            fr = [common.frac(v) for _, v in fterms] + [common.frac(v) for v in sc["f"].values()] + [common.frac(lam)]
            for cr in cons_rec:
                fr += [common.frac(v) for _, v in cr["P"]]
            den = common.common_den(fr)
            rec["den"] = den
            rec["f"] = [[[names.name(x) for x in k], common.to_int(common.frac(v), den)] for k, v in sc["f"].items()]
            rec["X"] = [names.name(l) for l in X]
            enc_cons = []
            for cr in cons_rec:
                enc_cons.append({"mode": cr["mode"], "rel": cr["rel"], "gate": cr["gate"], "geq": cr["geq"],
                                 "P": [[[names.name(x) for x in k], common.to_int(common.frac(v), den)] for k, v in cr["P"]],
                                 "ga": [[[names.name(x) for x in k], int(v)] for k, v in cr["ga"]],
                                 "ops": [[[[names.name(x) for x in k], int(v)] for k, v in o] for o in cr["ops"]],
                                 "lam": common.to_int(common.frac(cr["lam"]), den)})
            rec["cons"] = enc_cons
            if fname == "self":
                fv = [names.name(l) for l in set(hvars) | set(X)]
                rec["form"] = [[[names.name(x) for x in k], common.to_int(common.frac(v), den)] for k, v in fterms]
                rec["map"] = [[names.name(l), names.name(l)] for l in set(hvars) | set(X)]
                rec["fvars"] = sorted(fv)
                rec["has_bf"], rec["bf"], rec["bf_valid"], rec["remove_ok"] = has_bf, [names.name(k) for k in bf], bf_valid, remove_ok
                if len(fv) > MAXV:
                    rec["skip"] = True
            else:
                n = H.num_binary_variables
                fvars = sorted({x for k, _ in fterms for x in k} | set(range(n)))
                rec["form"] = common.enc_terms_int(fterms, den)
                rec["map"] = [[names.name(k), int(v)] for k, v in H.mapping.items()]
                rec["fvars"] = fvars
                if len(fvars) > MAXV:
                    rec["skip"] = True
                elif not raised:
                    conv = []
                    srcon = -1 if spin else 1
                    for bits in itertools.product([0, 1], repeat=len(fvars)):
                        sol = {v: ((1 - 2 * b) if sp_tgt else b) for v, b in zip(fvars, bits)}
                        cv = H.convert_solution(sol, spin=sp_tgt)
                        conv.append([[v for v, b in zip(fvars, bits) if b], [names.name(k) for k, v in cv.items() if v == srcon]])
                    rec["conv"], rec["conv_complete"] = conv, True
        except common.Inexact as e:
            rec["raised"] = rec["raised"] or ("Inexact: %s" % e)
        except Exception as e:             # noqa
            rec["raised"] = rec["raised"] or (type(e).__name__ + ": " + str(e)[:120])
        recs.append(rec)
    return recs


def describe(sc):
    return {"spin": sc["spin"], "labels": repr(sc["labels"]), "f": repr(sc["f"]), "extra_weight": sc["extra"], "fork": sc.get("fork"), "rebind": sc.get("rebind"), "remap": sc.get("remap"), "arg_form": sc.get("arg_form"),
            "steps": [{k: (repr(v) if k in ("P", "a", "ops") else v) for k, v in st.items()} for st in sc["steps"]]}


def run(tier, out, replay=None):
    wd = common.workdir("c08")
    rng = common.rng_for(out.seed, "c08")
    thorough = tier == "thorough"
    global MAXV
    MAXV = 11 if thorough else 10
    try:
        scens = gate_like_scenarios() + [gen_scenario(rng) for _ in range(3000 if thorough else 450)]
        if replay:
            scens = [scens[json.load(open(replay))["record"]["scenario_index"]]]
        recs, owners = [], []
        for i, sc in enumerate(scens):
            rs = run_scenario(sc, i, len(recs))
            for r in rs:
                if r.pop("skip"):
                    out.add("forms_skipped_too_many_variables", 1)
                    continue
                r["id"] = len(recs)
                recs.append(r)
                owners.append(i)
        out.set("scenarios", len(scens))
        out.set("forms_checked", len(recs))
        out.add("traces_validated_against_impl", len(recs))
        out.sample(describe(scens[0]))
        # one TLC run per ~12 MB of records: TLC keeps the whole deserialised file as values in memory and crawls beyond that
        chunks, cur, size = [], [], 0
        for q, rc in enumerate(recs):
            cur.append(q)
            size += len(json.dumps(rc))
            if size > 12_000_000:
                chunks.append(cur)
                cur, size = [], 0
        if cur or not chunks:
            chunks.append(cur)
        all_viol, violated_names, tail = [], [], ""
        for ci, chunk in enumerate(chunks):
            rf = os.path.join(wd, "recs_%d.ndjson" % ci)
            common.write_ndjson(rf, [recs[q] for q in chunk])
            r = run_tlc("CheckCompose", "CheckCompose.cfg", env={"QV_RECS": rf}, cont=True, timeout=3400, name="checkcompose")
            os.remove(rf)
            out.add("states", r.distinct)
            out.add("transitions", r.generated)
            all_viol += [(v[1], chunk[int(v[2]) - 1] + 1) for v in r.viol_lines]
            if r.violated and not r.viol_lines:
                violated_names, tail = r.violated, r.stdout[-1500:]

        class _R:
            pass
        r = _R()
        r.viol_lines = [(None, cl, idx) for cl, idx in all_viol]
        r.violated, r.stdout = violated_names, tail
        seen = set()
        for v in r.viol_lines:
            clause, idx = v[1].strip('"'), int(v[2])
            rec, sc = recs[idx - 1], scens[owners[idx - 1]]
            if (idx, clause) in seen:
                continue
            seen.add((idx, clause))
            sig = "%s %s form=%s" % (clause, "PCSO" if sc["spin"] else "PCBO", rec["target"])
            if rec["raised"].startswith("KeyError in solve_bruteforce"):
                sig = "NoRaise solve_bruteforce KeyError: recorded constraint mentions a label without a term in the model"
            out.violation(clause, sig, {"scenario": describe(sc), "raised": rec["raised"]},
                          {"scenario_index": owners[idx - 1] if not replay else json.load(open(replay))["record"]["scenario_index"]})
        if r.violated and not r.viol_lines:
            out.violation(r.violated[0], r.violated[0], r.stdout[-1500:], None)
        out.assumptions += ["<= 3 problem labels, 1-2 constraints, forms with <= %d variables incl. constraint and reduction ancillas" % MAXV,
                            "weights = (max f - min f) + extra; the specification re-checks feasibility and the weight antecedent and judges only then"]
    finally:
        common.cleanup(wd)
