"""Subprocess that runs annealer calls against a freshly built extension.

usage: anneal_driver.py <calls.json> <out.ndjson>      (env QV_SO = path of the built _canneal shared object)

Each call: {id, fn, kind, terms: [[labels...], num], den, labels: {name: python-literal}, kwargs: {...}, trace: bool,
            twice: bool}
Output per call: {id, raised, api: [...], api2, marshal: {...}, ev: [...raw trace lines...], ev2_equal}
Nothing is judged here."""
import ast
import json
import os
import sys
import warnings

HERE = os.path.dirname(os.path.dirname(os.path.abspath(__file__)))
sys.path.insert(0, HERE)


def bookkeeping(model):
    """caches of a model object the annealers have no business changing"""
    out = []
    for attr in ("variables", "mapping", "reverse_mapping", "degree", "num_binary_variables", "max_index", "num_ancillas", "name"):
        try:
            v = getattr(model, attr)
            out.append(repr(sorted(v.items(), key=repr)) if isinstance(v, dict) else (repr(sorted(v, key=repr)) if isinstance(v, set) else repr(v)))
        except AttributeError:
            out.append(None)
    return out


def main():
    calls_path, out_path = sys.argv[1], sys.argv[2]
    from harness import cbuild
    cbuild.inject(os.environ["QV_SO"])
    os.environ["JTIOSUE_QUBOVERT_VERIF"] = "1"
    import qubovert as qv
    from qubovert import utils
    import qubovert.sim._anneal as A
    from qubovert.sim import AnnealResults

    classes = {"QUBO": qv.QUBO, "QUSO": qv.QUSO, "PUBO": qv.PUBO, "PUSO": qv.PUSO, "PCBO": qv.PCBO, "PCSO": qv.PCSO,
               "QUBOMatrix": utils.QUBOMatrix, "QUSOMatrix": utils.QUSOMatrix, "PUBOMatrix": utils.PUBOMatrix,
               "PUSOMatrix": utils.PUSOMatrix, "dict": dict}
    captured = {}
    real_quso, real_puso = A.c_anneal_quso, A.c_anneal_puso

    def wrap_quso(h, num_neighbors, neighbors, J, Ts, num_anneals, in_order, init_state, seed):
        captured.update(kernel="quso", h=list(h), nn=list(num_neighbors), nb=list(neighbors), J=list(J), Ts=list(Ts),
                        num_anneals=num_anneals, in_order=in_order, init=list(init_state), seed=seed)
        return real_quso(h, num_neighbors, neighbors, J, Ts, num_anneals, in_order, init_state, seed)

    def wrap_puso(N, num_couplings, terms, couplings, Ts, num_anneals, in_order, init_state, seed):
        captured.update(kernel="puso", N=N, nc=list(num_couplings), tm=list(terms), cp=list(couplings), Ts=list(Ts),
                        num_anneals=num_anneals, in_order=in_order, init=list(init_state), seed=seed)
        return real_puso(N, num_couplings, terms, couplings, Ts, num_anneals, in_order, init_state, seed)

    A.c_anneal_quso, A.c_anneal_puso = wrap_quso, wrap_puso
    fns = {"anneal_quso": A.anneal_quso, "anneal_puso": A.anneal_puso, "anneal_qubo": A.anneal_qubo, "anneal_pubo": A.anneal_pubo}

    calls = json.load(open(calls_path))
    trace_file = out_path + ".trace"
    with open(out_path, "w") as out:
        for c in calls:
            lab = {k: ast.literal_eval(v) for k, v in c.get("labels", {}).items()}

            def L(x):
                return lab[x] if isinstance(x, str) else x
            den = c.get("den", 1)
            d = {}
            for k, num in c["terms"]:
                d[tuple(L(x) for x in k)] = (num / den) if den != 1 else num
            kw = dict(c.get("kwargs", {}))
            sched_list = kw.get("schedule") if isinstance(kw.get("schedule"), list) else None
            if c.get("sched_tuple") and sched_list is not None:
                kw["schedule"] = tuple(sched_list)
            in_order_form = c.get("in_order_form")
            if kw.get("initial_state") is not None:
                kw["initial_state"] = {L(k): v for k, v in kw["initial_state"]}
            if c.get("init_list") and isinstance(kw.get("initial_state"), dict):
                ks_ = sorted(kw["initial_state"], key=repr)
                if all(isinstance(k_, int) and not isinstance(k_, bool) for k_ in ks_) and sorted(ks_) == list(range(len(ks_))):
                    kw["initial_state"] = [kw["initial_state"][k_] for k_ in range(len(ks_))]     # indexed by LABEL, as a list

            def one():
                captured.clear()
                def kw_now():
                    """the keyword arguments of ONE library call (a one-shot iterator can be handed over only once)"""
                    k2 = dict(kw)
                    if c.get("sched_iter") and sched_list is not None:
                        k2["schedule"] = (T_ for T_ in sched_list)       # "an iterable of floats"
                    elif c.get("sched_np") and sched_list is not None:
                        import numpy as _np
                        k2["schedule"] = _np.array(sched_list, dtype=float)
                    elif c.get("sched_range") and sched_list is not None:
                        k2["schedule"] = range(len(sched_list), 0, -1)   # temperatures n, n-1, ..., 1
                    return k2
                if in_order_form and "in_order" in kw:
                    import numpy as _np
                    kw["in_order"] = {"int": int(bool(kw["in_order"])), "np": _np.bool_(bool(kw["in_order"]))}[in_order_form]
                if os.path.exists(trace_file):
                    os.remove(trace_file)
                if c.get("trace"):
                    os.environ["JTIOSUE_QUBOVERT_VERIF_TRACE"] = trace_file
                    if c.get("trace_max"):
                        os.environ["JTIOSUE_QUBOVERT_VERIF_TRACE_MAX"] = str(c["trace_max"])
                else:
                    os.environ.pop("JTIOSUE_QUBOVERT_VERIF_TRACE", None)
                if c.get("warm_shrink") and c["kind"].endswith("Matrix") and any(k for k in d):
                    # history: the SAME Matrix object was annealed while it still had a term on a much larger label (in place of
                    # its last term); that term was then removed, the last term added, refresh() called: same number of terms,
                    # fewer spins
                    keys_ = [k for k in d if k]
                    last_ = keys_[-1]
                    top_ = max(x for k in keys_ for x in k) + 40
                    pre = {k: v for k, v in d.items() if k != last_}
                    pre[(top_,)] = 1
                    model = classes[c["kind"]](pre)
                    saved = os.environ.pop("JTIOSUE_QUBOVERT_VERIF_TRACE", None)
                    try:
                        with warnings.catch_warnings():
                            warnings.simplefilter("ignore")
                            kw_w = {k_: v_ for k_, v_ in kw_now().items() if k_ != "initial_state"}
                            fns[c["fn"]](model, **kw_w)
                    except Exception:          # noqa
                        pass
                    if saved is not None:
                        os.environ["JTIOSUE_QUBOVERT_VERIF_TRACE"] = saved
                    captured.clear()
                    model[(top_,)] = 0
                    model[last_] = d[last_]
                    model.refresh()
                elif c.get("warm"):
                    # history: the SAME object was annealed before with other coefficients (same keys), then edited in place
                    pre = {k: -2 * v for k, v in d.items()}
                    model = classes[c["kind"]](pre) if c["kind"] != "dict" else dict(pre)
                    saved = os.environ.pop("JTIOSUE_QUBOVERT_VERIF_TRACE", None)
                    try:
                        with warnings.catch_warnings():
                            warnings.simplefilter("ignore")
                            fns[c["fn"]](model, **kw_now())
                    except Exception:          # noqa  (the judged call reports what it raises)
                        pass
                    if saved is not None:
                        os.environ["JTIOSUE_QUBOVERT_VERIF_TRACE"] = saved
                    captured.clear()
                    for k, v in d.items():
                        model[k] = v
                else:
                    model = classes[c["kind"]](d) if c["kind"] != "dict" else dict(d)
                for pk, pv in c.get("post", []):          # edits after construction (e.g. to leave a stale variable)
                    model[tuple(L(x) for x in pk)] = pv
                if c.get("remap") and hasattr(model, "set_mapping"):
                    mp = model.mapping
                    model.set_mapping({k: len(mp) - 1 - v for k, v in mp.items()})
                before = dict(model)
                book = bookkeeping(model)
                reported, maxindex = [], -1
                if c["kind"] != "dict":
                    try:
                        reported = [repr(x) for x in model.variables]
                        mi = model.max_index
                        maxindex = -1 if mi is None else int(mi)
                    except Exception:
                        pass
                raised, api, rtype = "", [], ""
                try:
                    with warnings.catch_warnings():
                        warnings.simplefilter("ignore")
                        if c.get("positional"):
                            # the same call with every argument given by position, in the documented order
                            order = ["num_anneals", "anneal_duration", "initial_state", "temperature_range", "schedule", "in_order", "seed"]
                            dflt = {"num_anneals": 1, "anneal_duration": 1000, "initial_state": None, "temperature_range": None,
                                    "schedule": "geometric", "in_order": True, "seed": None}
                            kwn = kw_now()
                            res = fns[c["fn"]](model, *[kwn.get(a_, dflt[a_]) for a_ in order])
                        else:
                            res = fns[c["fn"]](model, **kw_now())
                    rtype = type(res).__name__
                    for r in res:
                        api.append({"st": [[repr(k), v] for k, v in r.state.items()], "val": float(r.value).hex(),
                                    "spin": bool(r.spin)})
                    best = res.best
                    api_best = None if best is None else float(best.value).hex()
                except Exception as e:            # noqa: observation
                    raised, api_best = type(e).__name__ + ": " + str(e)[:120], None
                ev = []
                if c.get("trace") and os.path.exists(trace_file):
                    ev = open(trace_file).read().splitlines()
                return {"raised": raised, "api": api, "rtype": rtype, "best": api_best, "marshal": dict(captured), "ev": ev,
                        "reported": reported, "maxindex": maxindex,
                        "unchanged": dict(model) == before and type(model).__name__ == c["kind"] and bookkeeping(model) == book}
            r1 = one()
            rec = {"id": c["id"]}
            rec.update(r1)
            if c.get("twice"):
                r2 = one()
                rec["api2"] = r2["api"]
                rec["ev2_equal"] = (r2["ev"] == r1["ev"])
                rec["raised2"] = r2["raised"]
            out.write(json.dumps(rec) + "\n")
            out.flush()
    if os.path.exists(trace_file):
        os.remove(trace_file)


if __name__ == "__main__":
    main()
