"""pytest plugin (thorough tier of C12): runs the REPOSITORY's own annealer tests against the freshly built extension with
the env-guarded kernel trace on, and records for every C call the marshalled arguments, the returned states/values and a
prefix of the step trace.  Loaded with  -p harness.qv_test_plugin  (PYTHONPATH=/verif); writes ndjson to QV_TESTTRACE_OUT."""
import json
import os
import sys

sys.path.insert(0, os.path.dirname(os.path.dirname(os.path.abspath(__file__))))
from harness import cbuild  # noqa: E402

if os.environ.get("QV_SO") and "qubovert" not in sys.modules:
    cbuild.inject(os.environ["QV_SO"])
    os.environ["JTIOSUE_QUBOVERT_VERIF"] = "1"
    import qubovert.sim._anneal as A

    OUT = os.environ["QV_TESTTRACE_OUT"]
    TRACE = OUT + ".trace"
    MAXL = os.environ.get("QV_TESTTRACE_MAX", "400")
    MAXCALLS = int(os.environ.get("QV_TESTTRACE_CALLS", "150"))
    real = {"quso": A.c_anneal_quso, "puso": A.c_anneal_puso}
    counter = [0]

    def dump(kernel, marshal, ret):
        if counter[0] >= MAXCALLS:
            return
        ev = []
        if os.path.exists(TRACE):
            ev = open(TRACE).read().splitlines()
            os.remove(TRACE)
        counter[0] += 1
        with open(OUT, "a") as f:
            f.write(json.dumps({"id": counter[0], "kernel": kernel, "marshal": marshal, "ret_states": list(ret[0])[:8],
                                "ret_values": [float(v).hex() for v in list(ret[1])[:8]], "ev": ev}) + "\n")

    def arm():
        if os.path.exists(TRACE):
            os.remove(TRACE)
        if counter[0] >= MAXCALLS:                      # enough calls recorded: the remaining tests run untraced
            os.environ.pop("JTIOSUE_QUBOVERT_VERIF_TRACE", None)
            return
        os.environ["JTIOSUE_QUBOVERT_VERIF_TRACE"] = TRACE
        os.environ["JTIOSUE_QUBOVERT_VERIF_TRACE_MAX"] = MAXL

    def wrap_quso(h, nn, nb, J, Ts, num_anneals, in_order, init_state, seed):
        arm()
        ret = real["quso"](h, nn, nb, J, Ts, num_anneals, in_order, init_state, seed)
        dump("quso", {"kernel": "quso", "h": list(h), "nn": list(nn), "nb": list(nb), "J": list(J), "Ts": list(Ts),
                      "num_anneals": num_anneals, "in_order": in_order, "init": list(init_state), "seed": seed}, ret)
        return ret

    def wrap_puso(N, nc, tm, cp, Ts, num_anneals, in_order, init_state, seed):
        arm()
        ret = real["puso"](N, nc, tm, cp, Ts, num_anneals, in_order, init_state, seed)
        dump("puso", {"kernel": "puso", "N": N, "nc": list(nc), "tm": list(tm), "cp": list(cp), "Ts": list(Ts),
                      "num_anneals": num_anneals, "in_order": in_order, "init": list(init_state), "seed": seed}, ret)
        return ret

    A.c_anneal_quso, A.c_anneal_puso = wrap_quso, wrap_puso
