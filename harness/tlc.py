"""Run TLC on a module of /verif/spec and parse its verdict.

Nothing here decides a property: TLC evaluates the invariants, this file only starts it,
collects the counters it prints and turns every `Invariant X is violated` / QVVIOL line into a
Python object.  Exit status of TLC is not trusted on its own; the textual verdict is parsed and
an unrecognised outcome is a machinery failure (MachineryError -> exit code 2).
"""
import os
import re
import shutil
import subprocess
import time

VERIF = os.path.dirname(os.path.dirname(os.path.abspath(__file__)))
SPEC = os.path.join(VERIF, "spec")
WORK = os.path.join(VERIF, ".work")
JAR = "/opt/veriftools/tla/tla2tools.jar:/opt/veriftools/tla/CommunityModules-deps.jar"


class MachineryError(Exception):
    pass


class TLCResult:
    def __init__(self):
        self.generated = 0
        self.distinct = 0
        self.depth = 0
        self.completed = False      # "Model checking completed. No error has been found."
        self.violated = []          # invariant / property names TLC reported
        self.viol_lines = []        # parsed QVVIOL tuples printed by the spec: (clause, payload-string)
        self.prints = []            # other PrintT lines starting with <<"QV
        self.errors = []            # TLC errors that are not invariant violations
        self.wall = 0.0
        self.stdout = ""
        self.cmd = ""
        self.coverage = {}          # action name -> (distinct, generated) when -coverage was on
        self.deadlock = False
        self.truncated = False      # stopped after VIOL_CAP reported violations

    @property
    def ok(self):
        return self.completed and not self.violated and not self.viol_lines and not self.errors


_RE_STATES = re.compile(r"(\d+) states generated, (\d+) distinct states found, (\d+) states left on queue")
_RE_DEPTH = re.compile(r"The depth of the complete state graph search is (\d+)")
_RE_INV = re.compile(r"Error: Invariant (\S+) is violated")
_RE_PROP = re.compile(r"Error: (?:Action property|Temporal properties?) (\S*)\s*(?:is|were) violated")
_RE_COV = re.compile(r"^<(\w+) line (\d+), col (\d+) to line (\d+), col (\d+) of module (\w+)>: (\d+):(\d+)", re.M)


def split_top(s):
    """split the inside of a <<...>> tuple at top-level commas"""
    out, depth, cur, instr = [], 0, "", False
    i = 0
    while i < len(s):
        ch = s[i]
        if instr:
            cur += ch
            if ch == "\\" and i + 1 < len(s):
                cur += s[i + 1]
                i += 1
            elif ch == '"':
                instr = False
        elif ch == '"':
            instr = True
            cur += ch
        elif s.startswith("<<", i):
            depth += 1
            cur += "<<"
            i += 1
        elif s.startswith(">>", i):
            depth -= 1
            cur += ">>"
            i += 1
        elif ch in "{[(":
            depth += 1
            cur += ch
        elif ch in "}])":
            depth -= 1
            cur += ch
        elif ch == "," and depth == 0:
            out.append(cur.strip())
            cur = ""
        else:
            cur += ch
        i += 1
    if cur.strip():
        out.append(cur.strip())
    return out


def extract_tuples(text, tag):
    """find every printed tuple  <<"tag", ...>>  in text (16 workers may interleave lines, so
    tuples are located by bracket matching, not by line)."""
    res = []
    needle = '<<"%s"' % tag
    pos = 0
    while True:
        i = text.find(needle, pos)
        if i < 0:
            break
        depth, j, instr = 0, i, False
        while j < len(text):
            if instr:
                if text[j] == "\\":
                    j += 1
                elif text[j] == '"':
                    instr = False
            elif text[j] == '"':
                instr = True
            elif text.startswith("<<", j):
                depth += 1
                j += 1
            elif text.startswith(">>", j):
                depth -= 1
                j += 1
                if depth == 0:
                    break
            j += 1
        inner = text[i + 2:j - 1]
        res.append(split_top(inner))
        pos = j
    return res


VIOL_CAP = 40


def run_tlc(module, cfg, env=None, workers=16, timeout=600, mode="bfs", extra=(), name=None,
            coverage=False, cont=False, deadlock=False, heap="6g", keep=False, simulate=None):
    """module: name without .tla in /verif/spec; cfg: path to cfg file (absolute or in spec/).
    simulate: None or string after -simulate (e.g. 'num=100')."""
    os.makedirs(WORK, exist_ok=True)
    name = name or (module + "_" + os.path.basename(cfg).replace(".cfg", ""))
    meta = os.path.join(WORK, "meta", name + "_%d" % os.getpid())
    shutil.rmtree(meta, ignore_errors=True)
    os.makedirs(meta, exist_ok=True)
    if not os.path.isabs(cfg):
        cfg = os.path.join(SPEC, cfg)
    cmd = ["java", "-XX:+UseParallelGC", "-Xmx" + heap, "-Xss64m", "-cp", JAR, "tlc2.TLC",
           "-workers", str(workers), "-metadir", meta, "-noGenerateSpecTE", "-config", cfg]
    if cont:
        cmd.append("-continue")
    if coverage:
        cmd += ["-coverage", "1"]
    if deadlock:
        pass
    else:
        cmd.append("-deadlock")       # -deadlock DISABLES deadlock checking
    if simulate is not None:
        cmd += ["-simulate", simulate]
    cmd += list(extra)
    cmd.append(os.path.join(SPEC, module + ".tla"))
    e = dict(os.environ)
    e.pop("JAVA_TOOL_OPTIONS", None)
    if env:
        e.update({k: str(v) for k, v in env.items()})
    r = TLCResult()
    r.cmd = " ".join(cmd)
    t0 = time.time()
    # the output is read as it comes: with -continue every violation makes TLC print a trace under a global lock, so a
    # tree that breaks a clause on thousands of states would keep TLC busy for an hour; after VIOL_CAP reported
    # violations the run is stopped (the verdict is settled, the first violations are what the replay files need)
    import threading
    p = subprocess.Popen(cmd, cwd=SPEC, env=e, stdout=subprocess.PIPE, stderr=subprocess.STDOUT, text=True, errors="replace")
    lines, nviol = [], [0]

    def pump():
        for line in p.stdout:
            lines.append(line)
            if "QVVIOL" in line:
                nviol[0] += 1
    th = threading.Thread(target=pump, daemon=True)
    th.start()
    timed_out = False
    while p.poll() is None:
        if time.time() - t0 > timeout:
            timed_out = True
            p.kill()
            break
        if cont and nviol[0] >= VIOL_CAP:
            r.truncated = True
            p.kill()
            break
        time.sleep(0.05)
    p.wait()
    th.join(timeout=10)
    out = "".join(lines)
    rc = p.returncode
    if timed_out and nviol[0] == 0:
        r.stdout = out
        r.wall = time.time() - t0
        if not keep:
            shutil.rmtree(meta, ignore_errors=True)
        raise MachineryError("TLC timed out after %ss: %s\n%s" % (timeout, r.cmd, out[-2000:]))
    r.wall = time.time() - t0
    r.stdout = out
    if os.environ.get("QV_VERBOSE"):
        import sys
        print("[tlc %s] %.1fs rc=%s" % (name, r.wall, rc), file=sys.stderr)
        os.makedirs(os.path.join(WORK, "logs"), exist_ok=True)
        with open(os.path.join(WORK, "logs", name + ".log"), "w") as lf:
            lf.write(out)
    if not keep:
        shutil.rmtree(meta, ignore_errors=True)
    m = None
    for m in _RE_STATES.finditer(out):
        pass
    if m:
        r.generated, r.distinct = int(m.group(1)), int(m.group(2))
    elif r.truncated:
        # stopped early: the last progress line says how far the run got
        for pm in re.finditer(r"Progress\(\d+\) at [^:]*:[^:]*:[^:]*: ([\d,]+) states generated[^,]*, ([\d,]+) distinct states found", out):
            r.generated, r.distinct = int(pm.group(1).replace(",", "")), int(pm.group(2).replace(",", ""))
    m = _RE_DEPTH.search(out)
    if m:
        r.depth = int(m.group(1))
    r.completed = "Model checking completed. No error has been found." in out
    r.violated = _RE_INV.findall(out) + [x for x in _RE_PROP.findall(out)]
    if "Error: Deadlock reached" in out:
        r.deadlock = True
    for t in extract_tuples(out, "QVVIOL"):
        r.viol_lines.append(t)
    for t in extract_tuples(out, "QVINFO"):
        r.prints.append(t)
    # any other error
    for line in out.splitlines():
        if line.startswith("Error:") and not _RE_INV.match(line) and not _RE_PROP.match(line) \
                and "The behavior up to this point" not in line and "Deadlock reached" not in line:
            r.errors.append(line)
    if simulate is not None and not r.violated and not r.errors:
        # simulation mode ends without the "completed" banner
        r.completed = True
    if coverage:
        for mm in _RE_COV.finditer(out):
            r.coverage[mm.group(1) + "@" + mm.group(2)] = (int(mm.group(7)), int(mm.group(8)))
    if not r.completed and not r.violated and not r.deadlock and not r.errors and not r.viol_lines:
        raise MachineryError("TLC gave no verdict (rc=%s): %s\n%s" % (rc, r.cmd, out[-3000:]))
    if r.errors and not r.violated and not r.viol_lines:
        raise MachineryError("TLC error: %s\n%s\n%s" % (r.errors[:3], r.cmd, out[-3000:]))
    return r
