"""C09 - brute-force solvers return the exact minimum and exactly the minimisers."""
import copy
import itertools
import json
import os
import warnings

from . import common
from .tlc import run_tlc

FUNCS = {"solve_pubo_bruteforce": False, "solve_qubo_bruteforce": False, "solve_puso_bruteforce": True, "solve_quso_bruteforce": True}
KINDS = {False: ["dict", "QUBO", "PUBO", "PCBO", "QUBOMatrix", "PUBOMatrix"], True: ["dict", "QUSO", "PUSO", "PCSO", "QUSOMatrix", "PUSOMatrix"]}
QUADK = {"QUBO", "QUSO", "QUBOMatrix", "QUSOMatrix"}


def gen_case(rng):
    spin = rng.random() < 0.5
    kind = rng.choice(KINDS[spin])
    via_method = kind != "dict" and rng.random() < 0.4
    fn = None
    if not via_method:
        fn = rng.choice([f for f, s in FUNCS.items() if s == spin])
    quad = kind in QUADK or (fn is not None and "q" in fn.split("_")[1])
    matrix = kind.endswith("Matrix")
    n = rng.randint(0, 4)
    if matrix:
        labels = sorted(rng.sample(range(0, 6), n))
    else:
        pool = list(rng.choice(common.LABEL_POOLS))
        rng.shuffle(pool)
        labels = pool[:n]
    terms = {}
    keys = []
    halves = rng.random() < 0.25
    for d in range(1, (2 if quad else 3) + 1):
        keys += list(itertools.combinations(labels, d))
    rng.shuffle(keys)
    for k in keys[:rng.randint(0, 5)]:
        kk = list(k)
        if not matrix:
            rng.shuffle(kk)
        terms[tuple(kk)] = rng.choice([-2, -1, 1, 1, 2]) if not halves else rng.choice([-1.5, -0.5, 0.5, 1, 1.5])
    if terms and rng.random() < 0.15:
        # widely separated magnitudes: near-ties must not be treated as ties
        k0 = rng.choice(sorted(terms, key=str))
        terms[k0] = rng.choice([-1000000, 1000000, 250000.5])
    if rng.random() < 0.5:
        terms[()] = rng.choice([-3, 2, 0.5])
    if kind == "dict" and labels and rng.random() < 0.2:
        terms[(labels[0], labels[0])] = rng.choice([-1, 2])          # raw dict with a repeated label
    if kind == "dict" and len(labels) >= 2 and not quad and rng.random() < 0.2:
        # a long key that denotes a short monomial: x*x*y = x*y (boolean), z*z*w = w (spin)
        terms[(labels[0], labels[0], labels[1])] = rng.choice([-2, 1, 3])
    if kind == "dict" and rng.random() < 0.25:
        # integer labels that are not 0..n-1: negative ones, gaps
        ints = rng.sample([-3, -2, -1, 0, 1, 2, 3], len(labels))
        ren = dict(zip([repr(l) for l in labels], ints))
        terms = {tuple(ren[repr(x)] for x in k): v for k, v in terms.items()}
        labels = ints
        pool = ints + [7, 8, 9]
    zero_label = None
    if kind == "dict" and rng.random() < 0.2:
        # a plain dict may hold zero coefficients: the label is mentioned, so it is one of the model's variables
        zero_label = [l for l in pool if l not in labels][0]
        labels = labels + [zero_label]
        terms[(zero_label,)] = 0
    stale = kind != "dict" and rng.random() < 0.25      # model objects: bookkeeping left stale by a cancelled term
    # a PCBO / PCSO that carries a recorded constraint, handed to the FUNCTIONS: they minimise the model as it is, over every
    # assignment the caller's `valid` accepts (none given: all) - the recorded constraints are the methods' business
    constrained = kind in ("PCBO", "PCSO") and (not via_method) and labels and rng.random() < 0.6
    vk = rng.choice(["true", "true", "true", "false", "label", "atmost", "parity"])
    if stale:
        vk = "true"
    varg = []
    if vk == "label":
        if not labels:
            vk = "true"
        else:
            varg = [rng.choice(labels)]
    elif vk == "atmost":
        varg = [rng.randint(0, 2)]
    if via_method and vk not in ("true",):
        vk, varg = "true", []          # the methods use the model's own is_solution_valid
    return {"spin": spin, "kind": kind, "fn": fn, "labels": labels, "terms": terms, "valid_kind": vk, "valid_arg": varg,
            "all": rng.random() < 0.5, "stale": stale, "constrained": bool(constrained), "omit_valid": rng.random() < 0.5}


def exhaustive_cases(polys):
    """every polynomial of the TLC-emitted universe x four functions x all_solutions x three predicates, as dict and Matrix"""
    out = []
    for p in polys:
        for fn, spin in sorted(FUNCS.items()):
            quad = "q" in fn.split("_")[1]
            for kind, labels in (("dict", ["a", (1, 2)]), (("QUSOMatrix" if spin else "QUBOMatrix") if quad else
                                                           ("PUSOMatrix" if spin else "PUBOMatrix"), [0, 2])):
                for allsol in (False, True):
                    for vk, varg in (("true", []), ("label", [labels[0]]), ("parity", [])):
                        out.append({"spin": spin, "kind": kind, "fn": fn, "labels": labels, "terms": pure_instantiate(p, labels),
                                    "valid_kind": vk, "valid_arg": varg, "all": allsol})
    return out


def pure_instantiate(poly, pylabels):
    m = {"L%d" % i: l for i, l in enumerate(pylabels)}
    return {tuple(m[x] for x in k): c for k, c in poly.items()}


def run_case(case, cid):
    import qubovert as qv
    from qubovert import utils
    classes = {"QUBO": qv.QUBO, "QUSO": qv.QUSO, "PUBO": qv.PUBO, "PUSO": qv.PUSO, "PCBO": qv.PCBO, "PCSO": qv.PCSO,
               "QUBOMatrix": utils.QUBOMatrix, "QUSOMatrix": utils.QUSOMatrix, "PUBOMatrix": utils.PUBOMatrix,
               "PUSOMatrix": utils.PUSOMatrix, "dict": dict}
    spin = case["spin"]
    on = -1 if spin else 1
    labels = case["labels"]
    matrix = case["kind"].endswith("Matrix")
    names = {(type(l).__name__, l): ("L%d" % i) for i, l in enumerate(labels)}

    def nm(l):
        if matrix:
            return l if isinstance(l, int) and not isinstance(l, bool) else -7
        return names.get((type(l).__name__, l), "?%r" % (l,))
    cls_ = classes[case["kind"]]
    if case["kind"] not in ("dict", "PCBO", "PCSO") and not case["fn"] and cid % 4 == 2:
        cls_ = type("My" + case["kind"], (cls_,), {})          # a user's subclass: the methods must dispatch as for the class itself
    model = cls_(case["terms"])
    if case.get("constrained"):
        with warnings.catch_warnings():
            warnings.simplefilter("ignore")
            model.add_constraint_eq_zero({(labels[0],): 1}, lam=0.5)       # a weak penalty: the unconstrained minimum may violate it
    if case["kind"] != "dict" and not case["fn"] and cid % 3 == 0 and len(dict.keys(model)) >= 2:
        # history: the method answered before, then a term left the model through a plain dict method
        try:
            with warnings.catch_warnings():
                warnings.simplefilter("ignore")
                model.solve_bruteforce(case["all"])
        except Exception:      # noqa
            pass
        k_ = sorted(dict.keys(model), key=repr)[cid % len(dict.keys(model))]
        if cid % 2:
            del model[k_]
        else:
            model.pop(k_)
    if case.get("stale"):
        # a term over one more label comes and goes (the caches keep the label), and a key arrives unsorted
        extra = 7 if matrix else "__stale"
        lo = labels[0] if labels else extra
        model[(extra, lo) if lo != extra else (extra,)] += 1
        model[(lo, extra) if lo != extra else (extra,)] -= 1
    before = copy.deepcopy(model)
    state_before = deep_state(model)
    vk, varg = case["valid_kind"], case["valid_arg"]

    def valid(sol):
        ons = [k for k, v in sol.items() if v == on]
        if vk == "true":
            return True
        if vk == "false":
            return False
        if vk == "label":
            return varg[0] in ons
        if vk == "atmost":
            return len(ons) <= varg[0]
        return len(ons) % 2 == 0
    rec = {"id": cid, "spin": spin, "kind": case["kind"], "fn": case["fn"] or "method", "model": [], "K": [], "den": 1,
           "valid_kind": vk, "valid_arg": [nm(a) if vk == "label" else a for a in varg], "all": case["all"], "obj": [], "sols": [],
           "raised": "", "unchanged": True, "second_same": True}

    def call():
        with warnings.catch_warnings():
            warnings.simplefilter("ignore")
            if case["fn"]:
                if vk == "true" and case.get("omit_valid"):
                    return getattr(utils, case["fn"])(model, case["all"])
                return getattr(utils, case["fn"])(model, case["all"], valid)
            return None, model.solve_bruteforce(case["all"])
    try:
        obj, sol = call()
        first = copy.deepcopy((obj, sol))
        # what the caller does with a result is the caller's business: a later call must not see it
        try:
            for s in (sol if case["all"] else [sol]):
                if isinstance(s, dict):
                    s["__poked__"] = 5
            if isinstance(sol, list):
                sol.append({"__poked__": 1})
        except Exception:       # noqa
            pass
        obj, sol = call()
        rec["second_same"] = bool(first == (obj, sol))
        terms = [(tuple(k), v) for k, v in dict.items(before)]
        fr = [common.frac(v) for _, v in terms]
        sols = sol if case["all"] else [sol]
        if case["fn"] is None:
            # the method returns assignments only; its objective is the model's value at the first of them
            obj = model.value(sols[0]) if sols else None
        if obj is not None:
            fr.append(common.frac(obj))
        den = common.common_den(fr)
        rec["den"] = den
        rec["model"] = [[[nm(x) for x in k], common.to_int(common.frac(v), den)] for k, v in terms]
        if case["kind"] == "dict":
            K = sorted({x for k, _ in terms for x in k}, key=lambda z: (str(type(z)), str(z)))
        else:
            K = list(before.variables)
        rec["K"] = [nm(x) for x in K]
        rec["obj"] = [] if obj is None else [common.to_int(common.frac(obj), den)]
        if obj is not None:
            rec["sols"] = [[[nm(k) for k, v in s.items() if v == on], [nm(k) for k in s],
                            all(v in ((1, -1) if spin else (0, 1)) for v in s.values())] for s in sols]
            if not all(s[2] for s in rec["sols"]):
                rec["raised"] = "BadValue: a solution value outside the domain"
        rec["unchanged"] = (model == before) and type(model) is type(before) and deep_state(model) == state_before
    except common.Inexact as e:
        rec["raised"] = "Inexact: %s" % e
    except Exception as e:                  # noqa
        rec["raised"] = type(e).__name__ + ": " + str(e)[:100]
    return rec


def deep_state(model):
    """everything observable about a model object that a solver has no business changing"""
    if type(model) is dict:
        return sorted(map(repr, model.items()))         # (the order of a dict is not part of its value)
    st = {"items": sorted(map(repr, dict.items(model))), "variables": sorted(map(repr, model.variables)), "degree": model.degree,
          "nvars": model.num_binary_variables}
    for attr in ("mapping", "reverse_mapping", "max_index", "num_ancillas", "constraints", "name"):
        try:
            v = getattr(model, attr)
            st[attr] = repr(sorted(v.items(), key=repr)) if isinstance(v, dict) else repr(v)
        except AttributeError:
            pass
    return st


def describe(case):
    return {k: (repr(v) if k in ("labels", "terms", "valid_arg") else v) for k, v in case.items()}


def run(tier, out, replay=None):
    wd = common.workdir("c09")
    rng = common.rng_for(out.seed, "c09")
    thorough = tier == "thorough"
    try:
        cases = [gen_case(rng) for _ in range(15000 if thorough else 2500)]
        from . import pure
        polys, udesc = pure.universe("2f" if thorough else "2s", wd)
        ex = exhaustive_cases(polys)
        cases = ex + cases
        out.set("exhaustive_universe", udesc)
        out.set("exhaustive_cases", len(ex))
        if replay:
            cases = [cases[json.load(open(replay))["record"]["case_index"]]]
        recs = [run_case(c, i) for i, c in enumerate(cases)]
        if not replay:
            # the inherited Problem.solve_bruteforce (problems/_problem_parentclass.py): it must return a solution for every
            # instance, also when a coefficient cancels while the QUBO is built (WHICH solution is C10's business).  The
            # observation is recorded in the shape of a constant model, so that NoRaise is the clause that speaks.
            from qubovert import problems
            for pi, (cc, S, b) in enumerate([([2, 1], [[1, 0]], [1]), ([1, 2, 0], [[0, 1, 0], [1, 0, 1]], [1, 1]), ([1, 1], [[1, 1]], [1]),
                                             ([0, 2], [[0, 1]], [1]), ([4], [[1]], [1])]):
                prec = {"id": len(recs), "spin": False, "kind": "dict", "fn": "BILP.solve_bruteforce", "model": [], "K": [], "den": 1,
                        "valid_kind": "true", "valid_arg": [], "all": False, "obj": [0], "sols": [[[], [], True]], "raised": "",
                        "unchanged": True, "second_same": True}
                try:
                    sol = problems.BILP(cc, S, b).solve_bruteforce()
                    if len(sol) != len(cc):
                        prec["raised"] = "BadLength: solution of length %d for %d variables" % (len(sol), len(cc))
                except Exception as e:      # noqa
                    prec["raised"] = type(e).__name__ + ": " + str(e)[:80]
                recs.append(prec)
                cases.append({"problem": "BILP", "c": cc, "S": S, "b": b})
            # arguments given by position are forwarded like the same arguments given by keyword
            prec = {"id": len(recs), "spin": False, "kind": "dict", "fn": "AlternatingSectorsChain.solve_bruteforce", "model": [], "K": [], "den": 1,
                    "valid_kind": "true", "valid_arg": [], "all": False, "obj": [0], "sols": [[[], [], True]], "raised": "",
                    "unchanged": True, "second_same": True}
            try:
                for args_ in ((5, 2, 0, 1), (6, 3, 1, 2)):
                    for pbc_ in (True, False):
                        asc = problems.AlternatingSectorsChain(*args_)
                        r_pos, r_kw = asc.solve_bruteforce(pbc_), asc.solve_bruteforce(pbc=pbc_)
                        if isinstance(r_pos, list) or r_pos != r_kw:
                            prec["raised"] = "PositionalKeywordMismatch: %r vs %r" % (r_pos, r_kw)
            except Exception as e:      # noqa
                prec["raised"] = type(e).__name__ + ": " + str(e)[:80]
            recs.append(prec)
            cases.append({"problem": "AlternatingSectorsChain"})
        out.add("traces_validated_against_impl", len(recs))
        out.sample(describe(cases[0]))
        rf = os.path.join(wd, "recs.ndjson")
        common.write_ndjson(rf, recs)
        r = run_tlc("CheckSolve", "CheckSolve.cfg", env={"QV_RECS": rf}, cont=True, timeout=3000, name="checksolve")
        out.add("states", r.distinct)
        out.add("transitions", r.generated)
        seen = set()
        for v in r.viol_lines:
            clause, idx = v[1].strip('"'), int(v[2])
            rec, case = recs[idx - 1], cases[idx - 1]
            if (idx, clause) in seen:
                continue
            seen.add((idx, clause))
            shape = "no-variables" if not rec["K"] else "with-variables"
            out.violation(clause, "%s %s(%s) valid=%s all=%s %s" % (clause, rec["fn"], rec["kind"], rec["valid_kind"], rec["all"], shape),
                          {"case": describe(case), "obj": rec["obj"], "sols": rec["sols"][:4], "raised": rec["raised"]},
                          {"case_index": idx - 1 if not replay else json.load(open(replay))["record"]["case_index"]})
        if r.violated and not r.viol_lines:
            out.violation(r.violated[0], r.violated[0], r.stdout[-1500:], None)
        out.assumptions += ["models with <= 4 variables; validity predicates from a named family (true, false, a label is set, at most k set, even parity)",
                            "for the solve_bruteforce methods the objective is taken as the model's value at the returned assignment",
                            "when nothing is valid only `objective is None` is judged (the placeholder assignment is not)"]
    finally:
        common.cleanup(wd)
