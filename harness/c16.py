"""C16 - symbolic coefficients commute with substitution (constraint weights and reduction penalties given as sympy symbols)."""
import copy
import json
import os
import warnings
from fractions import Fraction

from . import c06, common, constraints as cs
from .tlc import run_tlc

CVALS = [(1, 1), (2, 1), (3, 1), (1, 2)]


def gen_case(rng):
    spin = rng.random() < 0.5
    pl = list(rng.choice(common.LABEL_POOLS))
    rng.shuffle(pl)
    labels = pl[:4]
    kind = rng.choice(["cmp", "cmp", "gate", "reduce", "symcons"])
    case = {"spin": spin, "labels": labels, "kind": kind, "c": rng.choice(CVALS),
            "objective": cs.gen_poly(rng, labels[:3], maxdeg=2, maxterms=2, coefs=(-2, 1, 3)) if rng.random() < 0.5 else None}
    if kind == "cmp":
        steps = []
        for _ in range(rng.choice([1, 1, 2])):
            lt = rng.random() < 0.6
            if rng.random() < 0.3:
                P, rel = cs.special_poly(rng, labels[:3], rng.choice(cs.SPECIAL_SHAPES))
            else:
                P = cs.gen_poly(rng, labels[:3], maxdeg=2, maxterms=3, coefs=(-1, 1) if not lt else (-2, -1, 1, 2))
                rel = rng.choice(cs.RELS)
            b, brec, bkind = cs.choose_bounds(rng, P, spin)
            steps.append({"P": P, "rel": rel, "lt": lt, "bounds": b})
        case["steps"] = steps
    elif kind == "symcons":
        # the constrained polynomial itself carries a symbol (second symbol `s`, substituted together with the weight); its shape
        # avoids every special-case branch for all substituted values, and explicit bounds (valid at the substituted value) are given
        case["c"] = rng.choice([(2, 1), (3, 1)])
        case["rel"] = rng.choice(cs.RELS)
        case["sympos"] = rng.randrange(3)
        case["cancel"] = rng.random() < 0.5     # one more term whose coefficient (s - c) is exactly 0 at the substituted value
        case["chain"] = rng.choice([None, "lam_first", "s_first"])      # the two symbols substituted one after the other
    elif kind == "gate":
        case["spin"] = False
        gate = rng.choice(cs.GATES)
        geq = rng.random() < 0.5
        n_ops = 1 if gate in ("BUFFER", "NOT") else (rng.choice([2, 3, 4]) if geq else rng.choice([1, 2, 3, 4]))
        case["gate"] = {"gate": gate, "geq": geq, "a": c06.operand(rng, labels) if geq else None,
                        "ops": [c06.operand(rng, labels) for _ in range(n_ops)]}
    else:
        terms = {}
        for _ in range(rng.randint(1, 2)):
            k = rng.sample(labels, rng.randint(3, 4))
            terms[tuple(k)] = rng.choice([-2, -1, 1, 2])
        for _ in range(rng.randint(0, 2)):
            k = rng.sample(labels, rng.randint(0, 2))
            terms[tuple(k)] = rng.choice([-1, 1, 2])
        case["model"] = terms
        case["src"] = rng.choice(["PUSO", "PCSO"] if spin else ["PUBO", "PCBO"])
        case["target"] = rng.choice(["qubo", "quso", "pubo", "puso"])
        case["deg"] = rng.choice([2, 3])
    if kind in ("cmp", "gate") and rng.random() < 0.12:
        # a very small weight (2^-40): every coefficient of the model is then tiny; the record holds the coefficients divided by it
        case["tiny"] = True
        case["objective"] = None
        case["c"] = (1, 1)
    return case


def build(case, lam):
    """returns the model built with weight / penalty `lam` (a sympy symbol or a number)"""
    import qubovert as qv
    spin = case["spin"]
    if case["kind"] == "reduce":
        M = getattr(qv, case["src"])(case["model"])
        kw = {"lam": lam}
        if case["target"] in ("pubo", "puso"):
            kw["deg"] = case["deg"]
        return getattr(M, "to_" + case["target"])(**kw)
    H = (qv.PCSO if spin else qv.PCBO)(case["objective"] or {})
    if case["kind"] == "symcons":
        import sympy
        labs = case["labels"][:3]
        cnum, cden = case["c"]
        numeric = not hasattr(lam, "free_symbols")
        sval = cnum if numeric else sympy.Symbol("s")
        coefs = [1, 1, 1]
        coefs[case["sympos"]] = sval
        P = {(l,): co for l, co in zip(labs, coefs)}
        P[()] = -2
        if case.get("cancel") and not numeric:
            P[(case["labels"][3],)] = sval - cnum
        Pnum = {(l,): (cnum if i == case["sympos"] else 1) for i, l in enumerate(labs)}
        Pnum[()] = -2
        bounds = cs.true_extrema(Pnum, spin)
        kw = {"lam": lam, "bounds": bounds}
        if case["rel"] != "eq":
            kw["log_trick"] = True
        getattr(H, "add_constraint_%s_zero" % case["rel"])(P, **kw)
        return H
    if case["kind"] == "cmp":
        for st in case["steps"]:
            kw = {"lam": lam, "bounds": st["bounds"]}
            if st["rel"] != "eq":
                kw["log_trick"] = st["lt"]
            getattr(H, "add_constraint_%s_zero" % st["rel"])(dict(st["P"]), **kw)
    else:
        g = case["gate"]
        args = []
        for kind, val, poly in ([g["a"]] if g["geq"] else []) + list(g["ops"]):
            args.append(val if kind == "label" else (dict(val) if kind == "dict" else qv.PUBO(val)))
        getattr(H, "add_constraint_" + ("eq_" if g["geq"] else "") + g["gate"])(*args, lam=lam)
    return H


def run_case(case, cid):
    import sympy
    names = cs.Names(case["labels"])
    lam = sympy.Symbol("lam")
    cnum, cden = case["c"]
    cval = cnum if cden == 1 else cnum / cden
    unscale = Fraction(1)
    if case.get("tiny"):
        cval = 2.0 ** -40
        unscale = Fraction(2) ** -40
    rec = {"id": cid, "spin": case["spin"], "cnum": cnum, "cden": cden, "den": 1, "sym": [], "affine": False, "subbed": [], "direct": [],
           "type_sym": "", "type_subbed": "", "type_direct": "", "cons_subbed": [], "cons_direct": [], "orig_unchanged": True, "raised": "", "py_equal": True,
           "subs_independent": True}

    def nm_key(k):
        return [x if (isinstance(x, int) and not isinstance(x, bool) and case["kind"] == "reduce") else names.name(x) for x in k]
    try:
        with warnings.catch_warnings():
            warnings.simplefilter("ignore")
            S = build(case, lam)
            snap = {tuple(k): v for k, v in dict.items(S)}
            snap_cons = copy.deepcopy(S.constraints) if hasattr(S, "constraints") else None
            subsmap = {lam: cval}
            if case["kind"] == "symcons":
                subsmap[sympy.Symbol("s")] = cval
            if case.get("chain") == "lam_first":
                Sub = S.subs({lam: cval}).subs({sympy.Symbol("s"): cval})
            elif case.get("chain") == "s_first":
                Sub = S.subs({sympy.Symbol("s"): cval}).subs({lam: cval})
            else:
                # every way sympy accepts a substitution: a dict, (old, new) by position, a list / tuple / iterator of pairs
                form_ = cid % 5
                if form_ == 1 and len(subsmap) == 1:
                    Sub = S.subs(lam, cval)
                elif form_ == 2:
                    Sub = S.subs(list(subsmap.items()))
                elif form_ == 3:
                    Sub = S.subs(tuple(subsmap.items()))
                else:
                    Sub = S.subs(subsmap)
            Dn = build(case, cval)
            # subs on a model that holds no symbol (any more) still hands out a NEW model: writing into it afterwards must not
            # show in the model it was called on
            def state_(m):
                return ({tuple(k): v for k, v in dict.items(m)}, copy.deepcopy(m.constraints) if hasattr(m, "constraints") else None,
                        dict(m.mapping) if hasattr(m, "mapping") else None, dict(m.reverse_mapping) if hasattr(m, "reverse_mapping") else None,
                        set(m.variables))
            for M_ in (Dn, Sub, S):
                st_ = state_(M_)
                N_ = M_.subs({lam: cval})
                try:
                    N_[(case["labels"][0],)] = 12345
                    N_[("__poked__",)] = 1
                    if hasattr(N_, "_constraints"):
                        for ps_ in N_._constraints.values():
                            for p_ in ps_:
                                p_[("__poked__",)] = 1
                except Exception:      # noqa
                    pass
                if state_(M_) != st_:
                    rec["subs_independent"] = False
        rec["orig_unchanged"] = ({tuple(k): v for k, v in dict.items(S)} == snap and
                                 (snap_cons is None or S.constraints == snap_cons))
        rec["type_sym"], rec["type_subbed"], rec["type_direct"] = type(S).__name__, type(Sub).__name__, type(Dn).__name__
        # the library's own notion of "the same model": Python equality of the two objects and of their recorded constraints
        try:
            rec["py_equal"] = bool(Sub == Dn) and (not hasattr(Dn, "constraints") or bool(Sub.constraints == Dn.constraints))
            if hasattr(Dn, "constraints"):
                # the recorded constraints are the same KIND of objects, and the two models judge every assignment alike
                kinds_ = lambda m: [(r, type(p_).__name__) for r, ps_ in sorted(m.constraints.items()) for p_ in ps_]      # noqa
                rec["py_equal"] = rec["py_equal"] and kinds_(Sub) == kinds_(Dn)
                vs_ = set(Dn.variables) | set(Sub.variables)
                for ps_ in Dn.constraints.values():
                    for p_ in ps_:
                        vs_ |= {x for k_ in p_ for x in k_}
                vs_ = sorted(vs_, key=repr)

                def verdict_(m, x):
                    try:
                        return bool(m.is_solution_valid(x))
                    except Exception as e_:      # noqa  (the same failure on both sides is agreement too)
                        return type(e_).__name__
                if len(vs_) <= 8:
                    import itertools
                    for bits_ in itertools.product([0, 1], repeat=len(vs_)):
                        x_ = {v_: ((1 - 2 * b_) if case["spin"] else b_) for v_, b_ in zip(vs_, bits_)}
                        if verdict_(Sub, x_) != verdict_(Dn, x_):
                            rec["py_equal"] = False
                            break
        except Exception:
            rec["py_equal"] = False
        # symbolic coefficients as affine pairs
        pairs, affine = [], True
        for k, v in dict.items(S):
            e = sympy.sympify(v)
            p = sympy.Poly(e, lam) if e.free_symbols else None
            if p is None:
                pairs.append((k, common.frac(e), Fraction(0)))
            elif p.degree() <= 1 and e.free_symbols <= {lam}:
                co = p.all_coeffs()
                c1 = co[0] if p.degree() == 1 else 0
                c0 = co[-1] if p.degree() == 1 else co[0]
                pairs.append((k, common.frac(c0), common.frac(c1)))
            else:
                affine = False
                break
        sub_t = [(tuple(k), common.frac(v) / unscale) for k, v in dict.items(Sub)]
        dir_t = [(tuple(k), common.frac(v) / unscale) for k, v in dict.items(Dn)]
        fr = [common.frac(v) for _, v in sub_t] + [common.frac(v) for _, v in dir_t]
        if affine:
            fr += [x for _, a, b in pairs for x in (a, b)]

        def cons_of(m):
            if not hasattr(m, "constraints"):
                return []
            return [(r, [(tuple(k), v) for k, v in dict.items(p)]) for r, ps in sorted(m.constraints.items()) for p in ps]
        cs_sub, cs_dir = cons_of(Sub), cons_of(Dn)
        for _, t in cs_sub + cs_dir:
            fr += [common.frac(v) for _, v in t]
        den = common.common_den(fr)
        rec["den"] = den
        rec["affine"] = affine
        if affine:
            rec["sym"] = [[nm_key(k), common.to_int(a, den), common.to_int(b, den)] for k, a, b in pairs]
        rec["subbed"] = [[nm_key(k), common.to_int(common.frac(v), den)] for k, v in sub_t]
        rec["direct"] = [[nm_key(k), common.to_int(common.frac(v), den)] for k, v in dir_t]
        rec["cons_subbed"] = [[r, [[nm_key(k), common.to_int(common.frac(v), den)] for k, v in t]] for r, t in cs_sub]
        rec["cons_direct"] = [[r, [[nm_key(k), common.to_int(common.frac(v), den)] for k, v in t]] for r, t in cs_dir]
    except common.Inexact as e:
        rec["raised"] = "Inexact: %s" % e
    except Exception as e:                 # noqa
        rec["raised"] = type(e).__name__ + ": " + str(e)[:120]
    return rec


def describe(case):
    return {k: repr(v) for k, v in case.items() if k != "_index"}


def run(tier, out, replay=None):
    wd = common.workdir("c16")
    rng = common.rng_for(out.seed, "c16")
    thorough = tier == "thorough"
    try:
        if not replay:
            # mechanism at design level: the transcribed penalties are linear in the weight (LamLinear) - part of the C02/C03 configs
            r = run_tlc("MCConstraints", "Cons_cmp_quick.cfg", timeout=1200, name="mccons_c16")
            out.add("states", r.distinct)
            out.set("design_LamLinear_cases", r.distinct)
            if not r.ok:
                out.violation("spec:" + ",".join(r.violated), "spec-level LamLinear", r.stdout[-2000:])
        cases = [gen_case(rng) for _ in range(4000 if thorough else 500)]
        for i, c in enumerate(cases):
            c["_index"] = i
        if replay:
            cases = [cases[json.load(open(replay))["record"]["case_index"]]]
        recs = [run_case(c, i) for i, c in enumerate(cases)]
        out.add("evaluations", len(recs))
        out.set("distinct_nontrivial", len({json.dumps(describe(c), sort_keys=True) for c in cases}))
        out.set("affine_models", sum(1 for r in recs if r["affine"]))
        out.set("rule", "seeded generator: (a) 1-2 comparison constraints (six relations, special shapes, log_trick, bounds kinds) or (b) one of the "
                        "sixteen gate constraints on a PCBO / PCSO with an optional objective, weight = sympy Symbol; (c) to_qubo/quso/pubo/puso of a "
                        "numeric PUBO/PCBO/PUSO/PCSO with a symbolic penalty; c in {1,2,3,1/2}; every case is non-trivial and distinct by its inputs")
        out.sample(describe(cases[0]))
        rf = os.path.join(wd, "recs.ndjson")
        common.write_ndjson(rf, recs)
        r = run_tlc("CheckSubs", "CheckSubs.cfg", env={"QV_RECS": rf}, cont=True, timeout=2400, name="checksubs")
        out.add("states", r.distinct)
        seen = set()
        for v in r.viol_lines:
            clause, idx = v[1].strip('"'), int(v[2])
            rec, case = recs[idx - 1], cases[idx - 1]
            if (idx, clause) in seen:
                continue
            seen.add((idx, clause))
            what = case["kind"] + (":" + case.get("target", "") if case["kind"] == "reduce" else "")
            out.violation(clause, "%s %s %s" % (clause, "spin" if case["spin"] else "boolean", what),
                          {"case": describe(case), "raised": rec["raised"], "types": [rec["type_sym"], rec["type_subbed"], rec["type_direct"]]},
                          {"case_index": case["_index"]})
        if r.violated and not r.viol_lines:
            out.violation(r.violated[0], r.violated[0], r.stdout[-1500:], None)
        out.assumptions += ["models whose COEFFICIENTS (not weights) are symbolic and are reduced with the default penalty are not demanded to be "
                            "dictionary-equal after substitution (a vanishing coefficient legitimately changes the pair heuristic); not generated",
                            "symbolic coefficients are affine in the symbol for every generated case (checked; non-affine cases skip SymbolicEvaluates)"]
    finally:
        common.cleanup(wd)
