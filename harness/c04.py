"""C04 - boolean/spin conversions, enumerations and exports preserve the function."""
import copy
import itertools
import json
import warnings

from . import common, pure

CONV = {"pubo_to_puso": ("b2s", False, False, "PUBOMatrix", "PUSOMatrix", "PUSO"),
        "qubo_to_quso": ("b2s", False, True, "QUBOMatrix", "QUSOMatrix", "QUSO"),
        "puso_to_pubo": ("s2b", True, False, "PUSOMatrix", "PUBOMatrix", "PUBO"),
        "quso_to_qubo": ("s2b", True, True, "QUSOMatrix", "QUBOMatrix", "QUBO")}
METHOD_TYPES = {"to_qubo": ("QUBOMatrix", False), "to_quso": ("QUSOMatrix", True), "to_pubo": ("PUBOMatrix", False),
                "to_puso": ("PUSOMatrix", True)}
ENUM_OF = {"QUBO": "to_qubo", "QUSO": "to_quso", "PUBO": "to_pubo", "PCBO": "to_pubo", "PUSO": "to_puso", "PCSO": "to_puso"}


def gen_case(rng):
    t = rng.random()
    if t < 0.35:
        fn = rng.choice(sorted(CONV))
        op, spin, quad, own, _, _ = CONV[fn]
        kinds = pure.SPIN_KINDS if spin else pure.BOOL_KINDS
        if quad:
            kinds = [k for k in kinds if k in pure.QUADK or k == "dict"]
        kind = rng.choice(kinds)
        labels, terms, matrix = pure.gen_model(rng, kind, quad=quad)
        return {"op": op, "fn": fn, "spin": spin, "kind": kind, "labels": labels, "terms": terms}
    if t < 0.65:
        spin = rng.random() < 0.5
        kind = rng.choice([k for k in (pure.SPIN_KINDS if spin else pure.BOOL_KINDS) if k != "dict" and not k.endswith("Matrix")])
        labels, terms, matrix = pure.gen_model(rng, kind, nmax=3)
        deg = max([len(k) for k in terms] + [0])
        meths = ["to_pubo", "to_puso", "to_enumerated"] + (["to_qubo", "to_quso"] if deg <= 2 else [])
        return {"op": "enum", "method": rng.choice(meths), "spin": spin, "kind": kind, "labels": labels, "terms": terms,
                "set_mapping": rng.random() < 0.3, "perm_seed": rng.randint(0, 10 ** 6)}
    if t < 0.8:
        spin = rng.random() < 0.5
        kind = rng.choice([k for k in (pure.SPIN_KINDS if spin else pure.BOOL_KINDS) if k != "dict" and not k.endswith("Matrix")])
        labels, terms, matrix = pure.gen_model(rng, kind, nmax=3, allow_empty=False)
        return {"op": "convsol", "spin": spin, "kind": kind, "labels": labels, "terms": terms, "set_mapping": rng.random() < 0.5,
                "perm_seed": rng.randint(0, 10 ** 6)}
    ex = rng.choice(["Q", "hJ", "q2m", "q2m", "m2q"])
    if ex == "Q":
        kind = rng.choice(["QUBO", "QUBOMatrix"])
        labels, terms, matrix = pure.gen_model(rng, kind, quad=True)
        return {"op": "Q", "spin": False, "kind": kind, "labels": labels, "terms": terms}
    if ex == "hJ":
        kind = rng.choice(["QUSO", "QUSOMatrix"])
        labels, terms, matrix = pure.gen_model(rng, kind, quad=True)
        return {"op": "hJ", "spin": True, "kind": kind, "labels": labels, "terms": terms}
    if ex == "q2m":
        kind = rng.choice(["dict", "QUBOMatrix"])      # a labelled QUBO is not an index-keyed QUBO: outside qubo_to_matrix
        n = rng.randint(1, 4)
        labels = list(range(n))
        terms = {}
        for k in [(i,) for i in range(n)] + list(itertools.combinations(range(n), 2)):
            if rng.random() < 0.6:
                terms[k] = rng.choice([-2, -1, 1, 2, 3])
        if not terms:
            terms[(0,)] = 1
        if kind == "dict" and rng.random() < 0.5:
            # a raw dict may list the same term under several keys: (i, j) and (j, i), (i,) and (i, i)
            for k in list(terms):
                if len(k) == 2 and rng.random() < 0.5:
                    terms[(k[1], k[0])] = rng.choice([-1, 1, 2])
                elif len(k) == 1 and rng.random() < 0.5:
                    terms[(k[0], k[0])] = rng.choice([-1, 2])
        return {"op": "q2m", "spin": False, "kind": kind, "labels": labels, "terms": terms, "symmetric": rng.random() < 0.5,
                "array": rng.random() < 0.5}
    n = rng.randint(1, 3)
    mat = [[rng.choice([0, 0, -2, 1, 3]) for _ in range(n)] for _ in range(n)]
    return {"op": "m2q", "spin": False, "kind": rng.choice(["list", "ndarray"]), "labels": list(range(n)), "terms": {}, "matrix": mat}


def exhaustive_cases(polys):
    """TLC-emitted universe x the four conversion functions (dict, labelled, own Matrix type) x enumeration methods and
    convert_solution on the labelled kinds x exports"""
    out = []
    for p in polys:
        for fn in sorted(CONV):
            op, spin, quad, own, _, _ = CONV[fn]
            lab = {"pubo_to_puso": "PCBO", "qubo_to_quso": "QUBO", "puso_to_pubo": "PCSO", "quso_to_qubo": "QUSO"}[fn]
            for kind, labels in (("dict", [(1, 2), "a"]), (lab, ["x", 3]), (own, [0, 2])):
                out.append({"op": op, "fn": fn, "spin": spin, "kind": kind, "labels": labels, "terms": pure.instantiate(p, labels)})
        for spin, kind in ((False, "QUBO"), (True, "QUSO"), (False, "PUBO"), (True, "PCSO")):
            labels = ["b", "a"]
            terms = pure.instantiate(p, labels)
            for meth in ("to_qubo", "to_quso", "to_pubo", "to_puso", "to_enumerated"):
                out.append({"op": "enum", "method": meth, "spin": spin, "kind": kind, "labels": labels, "terms": dict(terms)})
            if terms:
                out.append({"op": "convsol", "spin": spin, "kind": kind, "labels": labels, "terms": dict(terms)})
        out.append({"op": "Q", "spin": False, "kind": "QUBOMatrix", "labels": [0, 2], "terms": pure.instantiate(p, [0, 2])})
        out.append({"op": "hJ", "spin": True, "kind": "QUSOMatrix", "labels": [0, 2], "terms": pure.instantiate(p, [0, 2])})
    return out


def run_case(case, cid):
    from qubovert import utils
    import numpy as np
    rec = pure.blank(cid, case["op"])
    rec["spin"] = case["spin"]
    try:
        with warnings.catch_warnings():
            warnings.simplefilter("ignore")
            if case["op"] == "m2q":
                mat = case["matrix"]
                arg = np.array(mat) if case["kind"] == "ndarray" else [list(r) for r in mat]
                snap = copy.deepcopy(arg)
                res = pure.twice(lambda: utils.matrix_to_qubo(arg))
                terms = [((i, j), mat[i][j]) for i in range(len(mat)) for j in range(len(mat)) if mat[i][j]]
                rterms = pure.items_of(res)
                nm = pure.Namer([], True)
                rec.update({"rtype": type(res).__name__, "expect_type": "QUBOMatrix", "result_spin": False,
                            "unchanged": bool(np.array_equal(np.array(arg), np.array(snap)))})
            else:
                cls = pure.classes()[case["kind"]]
                matrix = case["kind"].endswith("Matrix") or case["op"] == "q2m"
                nm = pure.Namer(case["labels"], matrix)
                model = cls(case["terms"])
                if case["kind"] != "dict" and cid % 5 in (0, 1) and case["op"] != "q2m":
                    # a model object with history: a term over one more label came (FIRST, so it holds the first integer) and
                    # went (its caches still mention the label); sometimes the judged object is then a copy / a sum / a product
                    extra = 7 if case["kind"].endswith("Matrix") else "__gone"
                    model = cls()
                    model[(extra,)] += 1
                    for k, v in case["terms"].items():
                        model[k] += v
                    model[(extra,)] -= 1
                    if cid % 5 == 1:
                        choice_ = (cid // 5) % 5
                        if choice_ == 4:
                            model.refresh()          # refresh() after the cancellation: the bookkeeping is exact again
                        else:
                            model = [lambda m: m.copy(), lambda m: m + 0, lambda m: 1 * m, lambda m: type(m)(m)][choice_](model)
                if case["kind"] != "dict" and case["op"] in ("enum", "convsol"):
                    # conversions made BEFORE the enumeration is changed below must not be remembered
                    for meth in ("to_enumerated", case.get("method", "to_enumerated")):
                        try:
                            getattr(model, meth)()
                        except Exception:      # noqa
                            pass
                later = []
                if case.get("set_mapping"):
                    # a user-chosen mapping, handed over in an insertion order that differs from the integer order
                    import random as _r
                    pr = _r.Random(case["perm_seed"])
                    # half of the time the mapping is chosen while the model is still being built: the terms mentioning one
                    # label arrive after set_mapping (the object must keep numbering new labels consistently)
                    used = [l for l in case["labels"] if any(l in k for k in case["terms"])]
                    if pr.random() < 0.5 and len(used) >= 2:
                        last = used[-1]
                        first = {k: v for k, v in case["terms"].items() if last not in k}
                        if any(k for k in first):
                            later = [(k, v) for k, v in case["terms"].items() if last in k]
                            model = cls(first)
                    vs = list(model.variables)
                    ints = list(range(len(vs)))
                    pr.shuffle(ints)
                    pairs = list(zip(vs, ints))
                    pr.shuffle(pairs)
                    # every documented way of handing a mapping over (dict(*args, **kwargs) semantics): a dict, a list of
                    # pairs, a one-shot iterator of pairs; or the inverse mapping to set_reverse_mapping
                    form_ = pr.choice(["dict", "dict", "pairs", "iter", "gen", "reverse", "reverse_iter"])
                    if form_ == "dict":
                        model.set_mapping(dict(pairs))
                    elif form_ == "pairs":
                        model.set_mapping(list(pairs))
                    elif form_ == "iter":
                        model.set_mapping(zip([a_ for a_, _ in pairs], [b_ for _, b_ in pairs]))
                    elif form_ == "gen":
                        model.set_mapping((a_, b_) for a_, b_ in pairs)
                    elif form_ == "reverse":
                        model.set_reverse_mapping({b_: a_ for a_, b_ in pairs})
                    else:
                        model.set_reverse_mapping(iter([(b_, a_) for a_, b_ in pairs]))
                    for k, v in later:
                        model[k] += v
                snap = copy.deepcopy(model)
                terms = pure.items_of(snap)
                if case["op"] in ("b2s", "s2b"):
                    _, spin, quad, own, own_out, lab_out = CONV[case["fn"]]
                    res = pure.twice(lambda: getattr(utils, case["fn"])(model))
                    rterms = pure.items_of(res)
                    rec["result_spin"] = not spin
                    if case["kind"] == own:
                        rec["expect_type"] = own_out
                    elif case["kind"].endswith("Matrix"):
                        rec["expect_type"] = ""            # cross-kind Matrix input: only the value is judged (DESIGN C04)
                    else:
                        rec["expect_type"] = lab_out
                elif case["op"] == "enum":
                    meth = case["method"]
                    res = pure.twice(lambda: getattr(model, meth)())
                    rterms = pure.items_of(res)
                    real = ENUM_OF[case["kind"]] if meth == "to_enumerated" else meth
                    rec["expect_type"], rec["result_spin"] = METHOD_TYPES[real]
                    rec["map"] = [[nm(k), int(v)] for k, v in model.mapping.items()]
                    nm_res = pure.Namer([], True)
                    rterms = [(tuple(k), v) for k, v in rterms]
                elif case["op"] == "convsol":
                    res = None
                    rterms = []
                    n = model.num_binary_variables
                    rec["map"] = [[nm(k), int(v)] for k, v in model.mapping.items()]
                    table = []
                    tabvals = []
                    for bits in itertools.product([0, 1], repeat=n):
                        on = [i for i, b in enumerate(bits) if b]
                        for dom in ("bool", "spin"):
                            vals = [((1 - 2 * b) if dom == "spin" else b) for b in bits]
                            for form in ("dict", "list", "tuple"):
                                s = dict(enumerate(vals)) if form == "dict" else (list(vals) if form == "list" else tuple(vals))
                                conv = model.convert_solution(s, spin=(dom == "spin"))
                                v = model.value(conv)
                                tabvals.append((on, v))
                    rec["_tab"] = tabvals
                elif case["op"] == "Q":
                    res = pure.twice(lambda: model.Q)
                    rterms = [(tuple(k), v) for k, v in res.items()]
                    rec["result_spin"] = False
                elif case["op"] == "hJ":
                    h, J = pure.twice(lambda: (model.h, model.J))
                    rterms = [((k,), v) for k, v in h.items()] + [(tuple(k), v) for k, v in J.items()]
                    rec["result_spin"] = True
                    res = None
                elif case["op"] == "q2m":
                    res = pure.twice(lambda: utils.qubo_to_matrix(model, symmetric=case["symmetric"], array=case["array"]))
                    arr = np.array(res)
                    rterms = [((i, j), arr[i][j]) for i in range(arr.shape[0]) for j in range(arr.shape[1]) if arr[i][j]]
                    rec["result_spin"] = False
                    rec["expect_type"] = "ndarray" if case["array"] else "list"
                if case["op"] not in ("hJ", "convsol", "Q"):
                    rec["rtype"] = type(res).__name__
                rec["unchanged"] = pure.same(model, snap)
        fr = [common.frac(v) for _, v in terms] + [common.frac(v) for _, v in rterms] + [common.frac(v) for _, v in rec.get("_tab", [])]
        den = common.common_den(fr)
        rec["den"] = den
        rec["model"] = pure.enc_terms(terms, nm, den)
        if case["op"] == "enum":
            rec["result"] = pure.enc_terms(rterms, pure.Namer([], True), den)
        else:
            rec["result"] = pure.enc_terms(rterms, nm, den)
        if "_tab" in rec:
            rec["table"] = [[on, common.to_int(common.frac(v), den)] for on, v in rec.pop("_tab")]
    except common.Inexact as e:
        rec["raised"] = "Inexact: %s" % e
        rec.pop("_tab", None)
    except Exception as e:                 # noqa
        rec["raised"] = type(e).__name__ + ": " + str(e)[:100]
        rec.pop("_tab", None)
    return rec


def describe(case):
    return {k: (repr(v) if k in ("labels", "terms", "matrix") else v) for k, v in case.items() if k != "_index"}


def run(tier, out, replay=None):
    wd = common.workdir("c04")
    rng = common.rng_for(out.seed, "c04")
    try:
        cases = [gen_case(rng) for _ in range(20000 if tier == "thorough" else 3000)]
        polys, udesc = pure.universe("2f" if tier == "thorough" else "2s", wd)
        ex = exhaustive_cases(polys)
        cases = ex + cases
        out.set("exhaustive_universe", udesc)
        out.set("exhaustive_cases", len(ex))
        for i, c in enumerate(cases):
            c["_index"] = i
        if replay:
            cases = [cases[json.load(open(replay))["record"]["case_index"]]]
        recs = [run_case(c, i) for i, c in enumerate(cases)]
        out.add("evaluations", len(recs))
        out.set("distinct_nontrivial", len({json.dumps(describe(c), sort_keys=True) for c in cases if any(k for k in c["terms"]) or c.get("matrix")}))
        out.set("rule", "seeded generator: the four conversion functions x dict (raw, unsorted / repeated labels) / every model kind; "
                        "to_pubo / to_puso / to_qubo / to_quso / to_enumerated without reduction; convert_solution for every assignment as "
                        "dict / list / tuple in boolean and spin form; exports Q, h/J, qubo_to_matrix (symmetric or not, array or list), "
                        "matrix_to_qubo; models with <= 4 variables, degree <= 3, integer / half-integer coefficients; non-trivial = a "
                        "non-constant term; canonical result compared by TLC with ToSpinNum / ToBool / Relabel of the source")
        out.sample(describe(cases[0]))
        pure.check(out, wd, recs, cases, "c04",
                   lambda cl, rec, case: "%s %s(%s)" % (cl, case.get("fn") or case.get("method") or case["op"], case["kind"]), describe)
        out.assumptions += ["result types are judged where the docstrings fix them (own Matrix type in -> Matrix out; dict and labelled types in -> "
                            "labelled type out); for cross-kind Matrix inputs only the value is judged",
                            "exact dyadic coefficients only (no rounding behaviour)"]
    finally:
        common.cleanup(wd)
