"""C02 - PCBO comparison constraints become exact non-negative penalties (C03 re-uses this with spin=True)."""
import json
import os

from . import common, constraints as cs
from .tlc import run_tlc

INVS_NOTE = "clauses: NoRaise ArgUnchanged AncillaNamesFresh NumAncillasCovers ConstraintRecorded NonNeg ZeroWhenHolds LamWhenViolated ValidIffHolds"


def gen_scenarios(rng, n, spin):
    scens = []
    for s in range(n):
        pl = list(rng.choice(common.LABEL_POOLS))
        rng.shuffle(pl)
        labels = pl[:3]
        steps = []
        for _ in range(rng.choice([1, 1, 2, 3])):
            lt = rng.random() < 0.6
            if rng.random() < 0.3:
                P, rel = cs.special_poly(rng, labels, rng.choice(cs.SPECIAL_SHAPES))
                if rng.random() < 0.3:
                    rel = rng.choice(cs.RELS)
            else:
                small = (not lt) or spin
                P = cs.gen_poly(rng, labels, maxdeg=rng.choice([1, 2, 2, 3]), maxterms=2 if (spin and not lt) else 3,
                                coefs=(-1, 1) if (not lt) else ((-2, -1, 1, 2) if spin else (-3, -2, -1, 1, 2, 3)))
                rel = rng.choice(cs.RELS)
            lam = rng.choice([1, 2, 3, 0.5])
            b, brec, bkind = cs.choose_bounds(rng, P, spin)
            steps.append({"mode": "cmp", "P": P, "rel": rel, "lam": lam, "lt": lt, "bounds": b, "bounds_rec": brec, "bkind": bkind})
            if rng.random() < 0.1:
                # the same constraint once more, with another weight: each call adds its own penalty
                steps.append(dict(steps[-1], lam=rng.choice([l_ for l_ in (1, 2, 3, 0.5) if l_ != lam])))
        objective = None
        if rng.random() < 0.4:
            objective = cs.gen_poly(rng, labels, maxdeg=2, maxterms=2, coefs=(-2, 1, 3))
        scens.append({"labels": labels, "steps": steps, "objective": objective, "arg_form": rng.choice(["dict", "dict", "model", "pc"]),
                      "fork": rng.choice([None, None, None, "copy", "add0", "mul1", "ctor", "neg"]),
                      "rebind": rng.choice([None, None, "copy", "add0", "mul1", "ctor", "neg", "refresh", "imul1"])})
    return scens


def exhaustive_scenarios(polys, spin):
    """one real constraint call for EVERY polynomial of the TLC-emitted universe x six relations x log_trick both ways
    (computed bounds) - the same universe the design-level check MCConstraints explores"""
    scens = []
    labels = ["x", (1, 2), 3]
    for p in polys:
        P = {tuple({"L0": labels[0], "L1": labels[1], "L2": labels[2]}[n] for n in k): c for k, c in p.items()}
        if not P:
            continue
        for rel in cs.RELS:
            for lt in (True, False):
                if not lt and sum(abs(c) for k, c in P.items() if k) * (2 if spin else 1) > 8:
                    continue          # unary slack would need more ancillas than the truth-table clauses enumerate
                scens.append({"labels": labels, "steps": [{"mode": "cmp", "P": P, "rel": rel, "lam": 2, "lt": lt, "bounds": None,
                                                           "bounds_rec": [cs.NOBOUND, cs.NOBOUND], "bkind": "none"}],
                              "objective": None, "arg_form": "dict"})
    return scens


def run_scenarios(scens, spin):
    recs, owners = [], []
    for si, sc in enumerate(scens):
        rs = cs.run_scenario(si, sc["steps"], spin, sc["labels"], len(recs), objective=sc["objective"], arg_form=sc["arg_form"], fork=sc.get("fork"), rebind=sc.get("rebind"))
        for r in rs:
            owners.append(si)
        recs += rs
    return recs, owners


def describe(sc):
    return {"labels": [repr(l) for l in sc["labels"]], "objective": repr(sc["objective"]), "arg_form": sc["arg_form"], "fork": sc.get("fork"), "rebind": sc.get("rebind"),
            "steps": [{k: (repr(v) if k in ("P", "bounds") else v) for k, v in st.items() if k != "bounds_rec"} for st in sc["steps"]]}


def check_records(out, wd, recs, owners, scens, label, pid_hint):
    # one TLC run per ~10 MB of records, whole scenarios together (TLC keeps the deserialised file in memory and crawls beyond)
    chunks, cur, size = [], [], 0
    for q, rc in enumerate(recs):
        if cur and size > 10_000_000 and owners[q] != owners[q - 1]:
            chunks.append(cur)
            cur, size = [], 0
        cur.append(q)
        size += len(json.dumps(rc))
    if cur or not chunks:
        chunks.append(cur)
    viol, violated_names, tail = [], [], ""
    for ci, chunk in enumerate(chunks):
        rf = os.path.join(wd, "recs_%s_%d.ndjson" % (label, ci))
        common.write_ndjson(rf, [recs[q] for q in chunk])
        rr = run_tlc("CheckConstraints", "CheckConstraints.cfg", env={"QV_RECS": rf}, cont=True, timeout=3000, name="checkcons_" + label)
        os.remove(rf)
        out.add("states", rr.distinct)
        out.add("transitions", rr.generated)
        viol += [(None, v[1], chunk[int(v[2]) - 1] + 1) for v in rr.viol_lines]
        if rr.violated and not rr.viol_lines:
            violated_names, tail = rr.violated, rr.stdout[-1500:]

    class _R:
        pass
    r = _R()
    r.viol_lines, r.violated, r.stdout = viol, violated_names, tail
    out.add("traces_validated_against_impl", len(recs))
    seen = set()
    for v in r.viol_lines:
        clause, idx = v[1].strip('"'), int(v[2])
        rec = recs[idx - 1]
        sc = scens[owners[idx - 1]]
        if (idx, clause) in seen:
            continue
        seen.add((idx, clause))
        what = rec["rel"] if rec["mode"] == "cmp" else ("eq_" if rec["geq"] else "") + rec["gate"]
        out.violation(clause, "%s %s %s" % (clause, "PCSO" if rec["spin"] else "PCBO", what),
                      {"scenario": describe(sc), "failing_step": rec["step"], "raised": rec["raised"]},
                      {"scenario_pickle": describe(sc), "seed_scenario": owners[idx - 1]})
    if r.violated and not r.viol_lines:
        out.violation(r.violated[0], r.violated[0], r.stdout[-1500:], None)
    return r


def run_generic(tier, out, spin, design_cfgs, tag, replay=None):
    wd = common.workdir(tag)
    rng = common.rng_for(out.seed, tag)
    thorough = tier == "thorough"
    try:
        if not replay:
            for cfgname in design_cfgs[1 if thorough else 0]:
                r = run_tlc("MCConstraints", cfgname, timeout=3400, name="mccons_" + cfgname[:-4])
                out.add("states", r.distinct)
                out.add("transitions", r.generated)
                out.set("spec_design_" + cfgname[:-4], {"distinct": r.distinct})
                if not r.ok:
                    out.violation("spec:" + ",".join(r.violated), "spec-level %s %s" % (cfgname, ",".join(r.violated)), r.stdout[-2500:])
        if not replay:
            check_slack(out, wd)
        from . import pure
        polys, udesc = pure.universe("2f" if thorough else "2s", wd)
        polys3, udesc3 = pure.universe("3" if thorough else "3q", wd)      # three labels: product terms sharing a variable
        if thorough:
            step = 6 if spin else 3
            polys3 = polys3[out.seed % step::step]        # a third (spin: a sixth) of the 6 561 (which: by seed)
            udesc3 = dict(udesc3, used="every %d-th polynomial, offset seed mod %d" % (step, step))
        ex = exhaustive_scenarios(polys, spin) + exhaustive_scenarios(polys3, spin)
        out.set("exhaustive_universe", udesc)
        out.set("exhaustive_universe_3_labels", udesc3)
        out.set("exhaustive_scenarios", len(ex))
        scens = ex + gen_scenarios(rng, 4000 if thorough else 450, spin)
        if replay:
            want = json.load(open(replay))["record"]["seed_scenario"]
            scens = [scens[want]]
        recs, owners = run_scenarios(scens, spin)
        out.set("constraint_calls", len(recs))
        out.set("calls_with_truth_table_clauses", sum(1 for r in recs if r["anc_after"] - r["anc_before"] <= 9))
        out.set("scenarios", len(scens))
        if recs:
            out.sample(describe(scens[0]))
            check_records(out, wd, recs, owners, scens, tag, tag)
        out.assumptions += ["integer polynomials over <= 3 problem labels; coefficients bounded so that a penalty has <= ~10 ancillas "
                            "(the truth-table clauses enumerate all ancilla assignments)",
                            "user-supplied bounds are true enclosures computed by brute force in the generator",
                            "ancilla labels are recognised by their name prefix '__a' (harness), everything else is judged by TLC"]
    finally:
        common.cleanup(wd)


def slack_register_records():
    """num_bits on values far beyond the truth-table range, as (k, d, minus): v = 2^k + d or 2^k - d"""
    from qubovert.utils import num_bits
    recs = []
    for k in list(range(1, 40, 3)) + list(range(40, 64)):
        for d, minus in ((0, False), (1, False), (3, False), (2 ** k - 1, False), (1, True), (2, True)):
            if (minus and d > 2 ** (k - 1)) or (not minus and d >= 2 ** k):
                continue
            v = 2 ** k - d if minus else 2 ** k + d
            rec = {"k": k, "minus": minus, "out": -1, "raised": ""}
            try:
                rec["out"] = int(num_bits(v, True))
            except Exception as e:      # noqa
                rec["raised"] = type(e).__name__
            recs.append(rec)
    return recs


def check_slack(out, wd):
    recs = slack_register_records()
    rf = os.path.join(wd, "slack.ndjson")
    common.write_ndjson(rf, recs)
    r = run_tlc("CheckSlack", "CheckSlack.cfg", env={"QV_RECS": rf}, cont=True, timeout=300, workers=2, name="checkslack")
    out.add("slack_register_sizes_checked", len(recs))
    for v in r.viol_lines[:3]:
        rec = recs[int(v[2]) - 1]
        out.violation("SlackBits", "SlackBits num_bits", rec, None)


def run(tier, out, replay=None):
    run_generic(tier, out, False, (["Cons_cmp_quick.cfg"], ["Cons_cmp_full.cfg"]), "c02", replay)
