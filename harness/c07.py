"""C07 - sat expression builders compute their truth functions (BUFFER NOT AND NAND OR NOR XOR XNOR, nested)."""
import copy
import json
import warnings

from . import common, pure

GATES = ["BUFFER", "NOT", "AND", "NAND", "OR", "NOR", "XOR", "XNOR"]
LEAF_KINDS = ["dict", "QUBO", "PUBO", "PCBO", "QUBOMatrix", "PUBOMatrix"]


def leaf_model(rng, labels):
    l1, l2 = (rng.sample(labels, 2) if len(labels) >= 2 else (labels[0], labels[0]))
    shape = rng.choice(["x", "and", "not", "or", "one", "zero"])
    if shape == "x":
        return {(l1,): 1}
    if shape == "and" and l1 != l2:
        return {(l1, l2): 1}
    if shape == "not":
        return {(): 1, (l1,): -1}
    if shape == "or" and l1 != l2:
        return {(l1,): 1, (l2,): 1, (l1, l2): -1}
    if shape == "one":
        return {(): 1}
    return {}


def gen_tree(rng, labels, depth, int_labels):
    if depth == 0 or rng.random() < 0.25:
        if rng.random() < 0.6:
            return ["L", rng.choice(labels)]
        kinds = LEAF_KINDS if int_labels else [k for k in LEAF_KINDS if not k.endswith("Matrix")]
        return ["M", rng.choice(kinds), leaf_model(rng, labels)]
    g = rng.choice(GATES)
    n = 1 if g in ("BUFFER", "NOT") else rng.choice([1, 2, 2, 3, 3, 4, 5])
    return [g, [gen_tree(rng, labels, depth - 1, int_labels) for _ in range(n)]]


def gen_case(rng, maxdepth):
    int_labels = rng.random() < 0.35
    if int_labels:
        labels = sorted(rng.sample(range(0, 6), rng.randint(2, 4)))
    else:
        pool = list(rng.choice(common.LABEL_POOLS))
        rng.shuffle(pool)
        labels = pool[:rng.randint(2, 4)]
    t = gen_tree(rng, labels, rng.randint(1, maxdepth), int_labels)
    if t[0] in ("L", "M"):
        t = [rng.choice(GATES[:2]), [t]]
    return {"labels": labels, "tree": t, "int_labels": int_labels}


def run_case(case, cid):
    from qubovert import sat
    classes = pure.classes()
    nm = pure.Namer(case["labels"], case["int_labels"])
    rec = pure.blank(cid, "sat")
    leaves = []
    quad_leaf = [False]

    def build(t):
        if t[0] == "L":
            return t[1]
        if t[0] == "M":
            m = classes[t[1]](t[2])
            leaves.append((m, copy.deepcopy(m)))
            if t[1] in ("QUBO", "QUBOMatrix"):
                quad_leaf[0] = True
            return m
        return getattr(sat, t[0])(*[build(s) for s in t[1]])

    def enc_tree(t):
        if t[0] == "L":
            return ["L", nm(t[1])]
        if t[0] == "M":
            return ["M", [[[nm(x) for x in k], int(v)] for k, v in t[2].items()]]
        return [t[0], [enc_tree(s) for s in t[1]]]
    try:
        rec["tree"] = enc_tree(case["tree"])
        rec["K"] = [nm(l) for l in case["labels"]]
        with warnings.catch_warnings():
            warnings.simplefilter("ignore")
            first = build(case["tree"])
            unchanged_first = all(pure.same(m, s) for m, s in leaves)
            # what the caller does with a result is the caller's business: the expression is built a second time (from fresh
            # leaves) after the first result was scribbled into, and the SECOND result is the one judged
            try:
                first *= 3
                first -= 1
                first[("__poked__",)] = 1
            except Exception:       # noqa
                pass
            del leaves[:]
            res = build(case["tree"])
        rterms = pure.items_of(res)
        den = common.common_den([common.frac(v) for _, v in rterms])
        rec["den"] = 1
        if den != 1:
            rec["raised"] = "Inexact: non-integer coefficient in a truth function"
        rec["result"] = pure.enc_terms(rterms, nm, 1) if den == 1 else []
        rec["rtype"] = type(res).__name__
        rec["unchanged"] = unchanged_first and all(pure.same(m, s) for m, s in leaves)
    except KeyError as e:
        rec["raised"] = "KeyError: " + str(e)[:80]
        rec["raise_ok"] = quad_leaf[0]          # documented: quadratic kinds cannot hold intermediate terms of degree > 2
        rec["unchanged"] = all(pure.same(m, s) for m, s in leaves)
    except Exception as e:                 # noqa
        rec["raised"] = type(e).__name__ + ": " + str(e)[:100]
    return rec


def describe(case):
    return {"labels": repr(case["labels"]), "tree": repr(case["tree"])}


def run(tier, out, replay=None):
    wd = common.workdir("c07")
    rng = common.rng_for(out.seed, "c07")
    thorough = tier == "thorough"
    try:
        cases = [gen_case(rng, 3 if thorough else 2) for _ in range(12000 if thorough else 2500)]
        for i, c in enumerate(cases):
            c["_index"] = i
        if replay:
            cases = [cases[json.load(open(replay))["record"]["case_index"]]]
        recs = [run_case(c, i) for i, c in enumerate(cases)]
        out.add("evaluations", len(recs))
        out.set("distinct_nontrivial", len({json.dumps(describe(c), sort_keys=True) for c in cases}))
        out.set("keyerrors_on_quadratic_leaves", sum(1 for r in recs if r["raise_ok"]))
        out.set("rule", "seeded generator: expression trees over the eight builders, depth <= 2 (3 thorough), arity 1-5, leaves = labels of mixed "
                        "hashable types or 0/1-valued models (dict, QUBO, PUBO, PCBO, QUBOMatrix, PUBOMatrix: x, x AND y, NOT x, x OR y, constants); "
                        "every tree is non-trivial; the result's canonical polynomial must equal the Moebius inversion of the tree's truth table "
                        "(computed by TLC)")
        out.sample(describe(cases[0]))
        pure.check(out, wd, recs, cases, "c07", lambda cl, rec, case: "%s top=%s" % (cl, case["tree"][0]), describe)
        out.assumptions += ["a KeyError is accepted when a QUBO / QUBOMatrix leaf takes part (quadratic kinds cannot hold intermediate terms of "
                            "degree > 2); any returned value is judged"]
    finally:
        common.cleanup(wd)
