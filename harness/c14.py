"""C14 - model bookkeeping stays consistent under every history of edits.

spec/ModelObj.tla is model-checked exhaustively (TLC, all histories to a depth bound) per family of classes;
behaviours generated from it (state-graph walk + simulation) are replayed on the real classes and every
recorded step is validated by spec/ModelObjTrace.tla."""
import json
import os

from . import common, graph, modelobj
from .tlc import run_tlc

FAMILIES = [
    # name, Kind1, Kind2, spec labels, MC labels expr
    ("pcbo", "PUBO", "PCBO", ["a", "b", "c"]),
    ("pcso", "PUSO", "PCSO", ["a", "b", "c"]),
    ("qubo", "QUBO", "PUBO", ["a", "b", "c"]),
    ("quso", "QUSO", "PUSO", ["a", "b", "c"]),
    ("bmat", "PUBOMatrix", "QUBOMatrix", [0, 2, 3]),
    ("smat", "PUSOMatrix", "QUSOMatrix", [0, 2, 3]),
]
# both objects of the SAME class: update / += / copy between them take the class-specific paths (constraints, counters, caches)
SAME_KIND = [
    ("pcbo2", "PCBO", "PCBO", ["a", "b", "c"]),
    ("pcso2", "PCSO", "PCSO", ["a", "b", "c"]),
    ("bmat2", "PUBOMatrix", "PUBOMatrix", [0, 2, 3]),
    ("smat2", "QUSOMatrix", "QUSOMatrix", [0, 2, 3]),
]


def directed_histories(rng, n, labels, quad=False, constrained=True, length=7, kinds=("PCBO", "PCBO")):
    """op sequences chosen with equal weight per OPERATION (TLC's simulation picks uniformly among successor STATES, where the many
    keys of item assignment crowd out the rare operations): conversions between edits, updates between the two objects,
    constraints before and after.  Validated step by step by spec/ModelObjTrace.tla like every other history."""
    fams = ["setitem", "setitem", "setitem", "augadd", "toenum", "toenum", "update", "iadd", "copy", "refresh", "setmap", "new", "clear"]
    if constrained:
        fams += ["addcons", "addcons", "imul"]
    out = []
    for _ in range(n):
        ops = []
        kd = {1: kinds[0], 2: kinds[1]}            # copies change the class of a slot
        # half of the histories contain a sandwich  conversion ; <one edit or renumbering> ; the same conversion
        # (anything a conversion remembers must be forgotten by every kind of edit)
        sandwich_at = rng.randint(2, 4) if (constrained and rng.random() < 0.5) else -1
        if constrained and len(labels) >= 4 and rng.random() < 0.25:
            # motif: a cubic term, then a variable that comes and goes (the LAST label of the mapping is stale), then a reduction
            s0 = rng.choice([1, 2])
            ls_ = list(labels)
            rng.shuffle(ls_)
            ops += [["setitem", s0, ls_[:3], rng.choice([1, -1])], ["setitem", s0, [ls_[3]], 1], ["setitem", s0, [ls_[3]], 0],
                    ["toenum", s0, True]]
        for step_ in range(length):
            f = rng.choice(fams)
            s_ = rng.choice([1, 2])
            o_ = 3 - s_
            if step_ == sandwich_at:
                red_ = rng.random() < 0.7
                ops.append(["toenum", s_, red_])
                mid = rng.choice(["setmap", "setmap", "setitem", "augadd", "refresh", "update", "iadd", "addcons"])
                if mid == "setmap":
                    ops.append(["setmap", s_, rng.choice(["rev", "rot"])])
                elif mid in ("setitem", "augadd"):
                    ops.append([mid, s_, [rng.choice(labels) for _ in range(rng.choice([1, 2, 3]))], rng.choice([1, -1])])
                elif mid == "refresh":
                    ops.append(["refresh", s_])
                elif mid in ("update", "iadd"):
                    ops.append([mid, s_, o_, []])
                elif kd[s_] in ("PCBO", "PCSO"):
                    ops.append(["addcons", s_, rng.choice(labels), rng.randint(0, 5)])
                ops.append(["toenum", s_, red_])
                continue
            if f == "addcons" and kd[s_] not in ("PCBO", "PCSO"):
                f = "setitem"
            key = [rng.choice(labels) for _ in range(rng.choice([1, 1, 2, 2, 3] if not quad else [1, 2, 2]))]
            if f in ("setitem", "augadd"):
                ops.append([f, s_, key, rng.choice([1, 1, -1, 0])])
            elif f == "toenum":
                ops.append([f, s_, rng.random() < 0.7])
            elif f in ("update", "iadd", "imul"):
                if rng.random() < 0.7:
                    ops.append([f, s_, o_, []])
                else:
                    ops.append([f, s_, 0, [[key, 1]]])
            elif f == "copy":
                ops.append([f, s_, o_])
                kd[o_] = kd[s_]
            elif f in ("refresh", "clear"):
                ops.append([f, s_])
            elif f == "setmap":
                ops.append([f, s_, rng.choice(["rev", "rot"])])
            elif f == "new":
                ops.append([f, s_, [[key, 1]]])
            else:
                ops.append(["addcons", s_, rng.choice(labels), rng.randint(0, 5)])
        out.append(ops)
    return out


MC_INVS = ["UpperBounds", "MappingBijection", "StoredCanonical", "AncCovers"]
MC_PROPS = ["RefreshExact", "AncNeverReused"]
TRACE_INVS = ["TermsMatch", "KindMatch", "ImplNoRaise", "ImplUpperBounds", "ImplMappingBijection", "ImplStoredCanonical",
              "ImplRefreshExact", "ImplAncCovers", "ImplAncFresh", "ImplUnchangedOthers", "ImplEnumLabels", "ImplNoAlias", "NotStuck", "Drift"]


def tla_set(xs):
    return "{" + ", ".join('"%s"' % x if isinstance(x, str) else str(x) for x in xs) + "}"


def write_cfg(path, spec, k1, k2, labels, depth, fixed_reg=True, fixed_mul=True, invs=(), props=(), view=True,
              keylen=2, maxterms=4, vals="ValsM101", constraint=True, ops="AllOps"):
    with open(path, "w") as f:
        f.write("SPECIFICATION %s\nCONSTANTS\n" % spec)
        f.write("  Labels = %s\n  Vals <- %s\n  MaxKeyLen = %d\n" % (tla_set(labels), vals, keylen))
        f.write('  Kind1 = "%s"\n  Kind2 = "%s"\n' % (k1, k2))
        f.write("  FixedReg = %s\n  FixedMul = %s\n  MaxTerms = %d\n  Depth = %d\n  Ops <- %s\n" %
                (str(fixed_reg).upper(), str(fixed_mul).upper(), maxterms, depth, ops))
        for i in invs:
            f.write("INVARIANT %s\n" % i)
        for p in props:
            f.write("PROPERTY %s\n" % p)
        if constraint:
            f.write("CONSTRAINT DepthBound\n")
        if view:
            f.write("VIEW View\n")
        f.write("CHECK_DEADLOCK FALSE\n")


def ops_from_sim(simprefix):
    behs = graph.parse_sim_files(simprefix)
    out = []
    for b in behs:
        ops = [st["op"] for st in b[1:] if "op" in st]
        if ops:
            out.append(ops)
    return out


def py_labels(rng, spec_labels):
    """Python labels of mixed hashable types for the spec's opaque labels; desc lets a replay rebuild them"""
    if isinstance(spec_labels[0], int):
        return None, []
    pi = rng.randrange(len(common.LABEL_POOLS))
    order = list(range(len(common.LABEL_POOLS[pi])))
    rng.shuffle(order)
    order = order[:len(spec_labels)]
    return [common.LABEL_POOLS[pi][i] for i in order], [pi] + order


def labels_from_desc(desc):
    if not desc:
        return None
    return [common.LABEL_POOLS[desc[0]][i] for i in desc[1:]]


def validate(out, wd, traces, fam, label, trace_module="ModelObjTrace", invs=TRACE_INVS, pid_prefix="", chunk_steps=40000):
    """TLC validates recorded histories; large sets go in chunks (one TLC run each): TLC keeps the whole deserialised file as
    values in memory and crawls beyond ~10^5 steps"""
    chunk, n, r = [], 0, None
    for t in traces:
        chunk.append(t)
        n += len(t["steps"])
        if n >= chunk_steps:
            r = _validate(out, wd, chunk, fam, label, trace_module, invs, pid_prefix)
            chunk, n = [], 0
    if chunk or r is None:
        r = _validate(out, wd, chunk, fam, label, trace_module, invs, pid_prefix)
    return r


def _validate(out, wd, traces, fam, label, trace_module, invs, pid_prefix):
    traces = [dict(t, tid=i + 1) for i, t in enumerate(traces)]
    name, k1, k2, labels = fam
    tf = os.path.join(wd, "traces_%s_%s.ndjson" % (name, label))
    common.write_ndjson(tf, traces)
    cfg = os.path.join(wd, "trace_%s_%s.cfg" % (name, label))
    write_cfg(cfg, "TraceSpec", k1, k2, labels, 99, invs=invs, view=False, keylen=3, maxterms=99, constraint=False)
    r = run_tlc("MC" + trace_module, cfg, env={"QV_TRACES": tf}, cont=True, timeout=2400, name="motrace_%s_%s" % (name, label))
    out.add("traces_validated_against_impl", len(traces))
    out.add("trace_steps_validated", sum(len(t["steps"]) for t in traces))
    out.add("states", r.distinct)
    out.add("transitions", r.generated)
    out.drift += len(r.prints)
    seen = set()
    for v in r.viol_lines:
        clause, tid, pos = v[1].strip('"'), int(v[2]), int(v[3])
        if (tid, clause) in seen:
            continue
        seen.add((tid, clause))
        tr = traces[tid - 1]
        ops = [s["op"] for s in tr["steps"][:pos]]
        step = tr["steps"][pos - 1] if 0 < pos <= len(tr["steps"]) else None
        opname = step["op"][0] if step else "?"
        kind = ""
        if step:
            try:
                tgt = step["op"][2] if opname == "copy" else step["op"][1]
                kind = step["slots"][tgt - 1]["kind"]
            except Exception:
                kind = ""
        out.violation(clause, "%s after %s on %s" % (clause, opname, kind),
                      {"failing_step": step, "position": pos, "history": ops[-6:]},
                      {"family": name, "ops": ops, "py_labels": tr.get("py_labels")})
    if r.violated and not r.viol_lines:
        out.violation(r.violated[0], r.violated[0], r.stdout[-1500:], None)
    return r


def fam_by_name(n):
    return [f for f in FAMILIES + SAME_KIND if f[0] == n][0]


def run(tier, out, replay=None):
    wd = common.workdir("c14")
    rng = common.rng_for(out.seed, "c14")
    thorough = tier == "thorough"
    try:
        if replay and "pair" in (json.load(open(replay)).get("record") or {}):
            from . import c05
            return c05.replay_pair(out, json.load(open(replay))["record"]["pair"])
        if replay:
            rec = json.load(open(replay))["record"]
            directed = {"pcbo2d": ("PCBO", "PCBO", ["a", "b", "c", "d"]), "pcso2d": ("PCSO", "PCSO", ["a", "b", "c", "d"]),
                        "pubod": ("PUBO", "PCBO", ["a", "b", "c", "d"]), "bmat2d": ("PUBOMatrix", "PUBOMatrix", [0, 2, 3, 5]),
                        "qmat2d": ("QUBOMatrix", "QUBOMatrix", [0, 2, 3, 5])}
            if rec["family"] in directed:
                fam = (rec["family"],) + directed[rec["family"]]
            else:
                fam = fam_by_name(rec["family"].rstrip("4"))
            if rec["family"].endswith("4"):
                fam = (fam[0] + "4", fam[1], fam[2], ["a", "b", "c", "d"])
            codec = modelobj.LabelCodec(fam[3], labels_from_desc(rec.get("py_labels")))
            traces = modelobj.replay([rec["ops"]], [fam[1], fam[2]], codec)
            validate(out, wd, traces, fam, "replay")
            out.sample({"replayed_ops": rec["ops"]})
            return
        cfg = os.path.join(wd, "mc.cfg")
        # 1. exhaustive model checking, every family
        spec_states = {}
        for fam in FAMILIES:
            name, k1, k2, labels = fam
            depth = 5 if thorough else 4
            if name in ("qubo", "quso", "bmat", "smat") and not thorough:
                depth = 3
            write_cfg(cfg, "Spec", k1, k2, labels[:2], depth, invs=MC_INVS, props=MC_PROPS)
            r = run_tlc("MCModelObj", cfg, timeout=3000, name="mo_mc_" + name)
            spec_states[name] = {"distinct": r.distinct, "generated": r.generated, "histories_up_to_steps": depth - 1}
            out.add("states", r.distinct)
            out.add("transitions", r.generated)
            if not r.ok:
                out.violation("spec:" + ",".join(r.violated), "spec-level %s %s" % (name, ",".join(r.violated)), r.stdout[-3000:])
        out.set("spec_exhaustive", spec_states)
        # 1b. negative configurations: the pinned defects F1 (label registration) and F8 (`*=` resets the ancilla
        #     counter) must be rejected by the same invariants
        rejected = {}
        for (nm, k1, k2, reg, mul, inv) in [("F1", "PUBO", "PUSO", False, True, "MappingBijection"),
                                            ("F8", "PCBO", "PCBO", True, False, "AncCovers")]:
            write_cfg(cfg, "Spec", k1, k2, ["a", "b"], 3, fixed_reg=reg, fixed_mul=mul, invs=[inv])
            rn = run_tlc("MCModelObj", cfg, timeout=600, name="mo_neg")
            rejected[nm] = rn.violated
            if inv not in rn.violated:
                out.notes.append("VACUITY WARNING: negative configuration %s not rejected" % nm)
        out.set("negative_configs_rejected", rejected)
        # 2. every transition of the 2-step graph of the constrained families, replayed on the real classes
        for famname in ("pcbo", "pcso", "pcbo2", "pcso2"):
            fam = fam_by_name(famname)
            name, k1, k2, labels = fam
            # no VIEW here: the history variable `op` of the destination node identifies the operation of an edge
            write_cfg(cfg, "Spec", k1, k2, labels[:2], 3, invs=["UpperBounds"], view=False)
            dump = os.path.join(wd, "g_" + name)
            run_tlc("MCModelObj", cfg, timeout=900, workers=8, extra=["-dump", "dot", dump], name="mo_dump")
            adj, init, nlabels = graph.parse_dot(dump + ".dot", want_labels=True)
            os.remove(dump + ".dot")
            adj, nodeops = graph.relabel_by_dst_op(adj, nlabels)
            walks, covered, total = graph.cover_walks(adj, init, rng, 100000 if thorough else 8000, max_len=40)
            out.add("graph_edges_total", total)
            out.add("graph_edges_replayed", covered)
            ops_list = [[eval(l) for l in w] for w in walks]
            pl, desc = py_labels(rng, labels)
            codec = modelobj.LabelCodec(labels, pl)
            traces = modelobj.replay(ops_list, [k1, k2], codec)
            for t in traces:
                t["py_labels"] = desc
            validate(out, wd, traces, fam, "walk")
        # 3. long random histories from every family (simulation mode of TLC)
        nsim = 1500 if thorough else 110
        for fam in FAMILIES + SAME_KIND:
            name, k1, k2, labels = fam
            write_cfg(cfg, "Spec", k1, k2, labels, 99, invs=["StoredCanonical"], view=False, keylen=3, maxterms=6, constraint=False)
            simdir = os.path.join(wd, "sim_" + name)
            os.makedirs(simdir)
            run_tlc("MCModelObj", cfg, timeout=1500, workers=1, simulate="file=%s/tr,num=%d" % (simdir, nsim),
                    extra=["-depth", "14", "-seed", str(out.seed + 23)], name="mo_sim_" + name)
            ops_list = ops_from_sim(os.path.join(simdir, "tr"))
            out.add("simulated_behaviours", len(ops_list))
            pl, desc = py_labels(rng, labels)
            codec = modelobj.LabelCodec(labels, pl)
            traces = modelobj.replay(ops_list, [k1, k2], codec)
            for t in traces:
                t["py_labels"] = desc
            if traces:
                if name in ("pcso", "bmat"):
                    out.sample({"family": name, "python_labels": repr(pl), "ops": ops_list[0][:8]})
                validate(out, wd, traces, fam, "sim")
        # 4. targeted histories: edits that leave stale labels, then enumerated / reduced forms (4 labels, cubic terms)
        for famname in ("pcbo", "pcso"):
            fam = fam_by_name(famname)
            name, k1, k2, labels = fam
            labels4 = ["a", "b", "c", "d"]
            write_cfg(cfg, "Spec", k1, k2, labels4, 99, invs=["StoredCanonical"], view=False, keylen=3, maxterms=5,
                      constraint=False, ops="StaleOps", vals="Vals01")
            simdir = os.path.join(wd, "stale_" + name)
            os.makedirs(simdir)
            run_tlc("MCModelObj", cfg, timeout=1500, workers=1, simulate="file=%s/tr,num=%d" % (simdir, 6000 if thorough else 500),
                    extra=["-depth", "9", "-seed", str(out.seed + 29)], name="mo_stale_" + name)
            ops_list = ops_from_sim(os.path.join(simdir, "tr"))
            out.add("simulated_behaviours", len(ops_list))
            pl, desc = py_labels(rng, labels4)
            codec = modelobj.LabelCodec(labels4, pl)
            traces = modelobj.replay(ops_list, [k1, k2], codec)
            for t in traces:
                t["py_labels"] = desc
            fam4 = (name + "4", k1, k2, labels4)
            if traces:
                validate(out, wd, traces, fam4, "stale")
        # 4b. operand pairs: the in-place forms between EVERY ordered pair of classes over the TLC-emitted universe
        #     (spec/CheckBin.tla, clause Bookkeeping: the fast paths a pair of classes may take)
        from . import c05
        c05.pairs_tier(out, wd, common.rng_for(out.seed, "c14p"), thorough)
        # 5. directed histories (harness-chosen operations, one weight per operation), validated like the generated ones
        for name, k1, k2, labels4, quad, cons in (("pcbo2d", "PCBO", "PCBO", ["a", "b", "c", "d"], False, True),
                                                  ("pcso2d", "PCSO", "PCSO", ["a", "b", "c", "d"], False, True),
                                                  ("pubod", "PUBO", "PCBO", ["a", "b", "c", "d"], False, True),
                                                  ("bmat2d", "PUBOMatrix", "PUBOMatrix", [0, 2, 3, 5], False, False),
                                                  ("qmat2d", "QUBOMatrix", "QUBOMatrix", [0, 2, 3, 5], True, False)):
            ops_list = directed_histories(rng, 2500 if thorough else 260, labels4, quad=quad, constrained=cons, kinds=(k1, k2))
            if not cons:
                ops_list = [[o for o in ops if o[0] not in ("toenum", "setmap")] for ops in ops_list]
            out.add("directed_histories", len(ops_list))
            pl, desc = py_labels(rng, labels4)
            codec = modelobj.LabelCodec(labels4, pl)
            traces = modelobj.replay(ops_list, [k1, k2], codec)
            for t in traces:
                t["py_labels"] = desc
            validate(out, wd, traces, (name, k1, k2, labels4), "directed")
        out.assumptions += [
            "cached variables/degree/mapping numbering are free components: judged by the C14 contract on the implementation's "
            "own state, not by equality with the spec's prediction (differences are counted as drift)",
            "histories use integer coefficients in {-1,0,1}; at most 3 model labels plus constraint ancillas",
            "a constraint method's penalty terms are free here (decided by C02/C03); only counter, names and caches are judged"]
    finally:
        common.cleanup(wd)


def op_of_label(label):
    name, args = graph.parse_action(label)
    m = {"DoSetItem": "setitem", "DoAugAdd": "augadd", "DoIAdd": "iadd", "DoISub": "isub", "DoUpdate": "update",
         "DoIMul": "imul", "DoIAddScalar": "iadd_scalar", "DoIMulScalar": "imul_scalar", "DoISubScalar": "isub_scalar", "DoIDiv": "idiv", "DoClear": "clear",
         "DoRefresh": "refresh", "DoCopy": "copy", "DoAddCons": "addcons", "DoToEnum": "toenum"}
    if name == "DoIPow":
        return ["ipow", args[0], 2]
    return [m[name]] + args
