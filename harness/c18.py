"""C18 - substitution and scaling utilities preserve the represented function (subvalue, subgraph, normalize)."""
import copy
import json
import warnings

from . import common, pure


def gen_case(rng):
    op = rng.choice(["subvalue", "subvalue", "subgraph", "subgraph", "normalize", "subsym"])
    spin = rng.random() < 0.5
    kind = rng.choice(pure.SPIN_KINDS if spin else pure.BOOL_KINDS)
    labels, terms, matrix = pure.gen_model(rng, kind, halves_p=0.15 if op != "normalize" else 0.0, allow_empty=(op != "normalize"),
                                           raw_dict_tricks=(op in ("subvalue", "subsym")))
    # a raw dict that repeats a label inside a key has no agreed meaning for values outside the domain (x*x: x or x^2?)
    canonical = all(len(set(k)) == len(k) for k in terms) and len({frozenset(k) for k in terms}) == len(terms)
    case = {"op": op, "spin": spin, "kind": kind, "labels": labels, "terms": terms, "method": kind != "dict" and rng.random() < 0.5}
    dom = [1, -1] if spin else [0, 1]
    if op in ("subvalue", "subsym"):
        chosen = [l for l in labels if rng.random() < 0.5]
        case["vals"] = [[l, rng.choice(dom + dom + ([2, -3] if canonical else []))] for l in chosen]
        if op == "subsym" and not chosen and labels:
            case["vals"] = [[labels[0], rng.choice(dom)]]
    elif op == "subgraph":
        nodes = [l for l in labels if rng.random() < 0.6]
        outside = [l for l in labels if l not in nodes]
        case["nodes"] = nodes
        case["vals"] = [[l, rng.choice(dom + ([2] if canonical else []))] for l in outside if rng.random() < 0.6]
        if rng.random() < 0.35:
            # a whole assignment handed over as connections: entries for labels INSIDE `nodes` are not outside variables
            case["vals"] += [[l, rng.choice(dom)] for l in nodes if rng.random() < 0.7]
            rng.shuffle(case["vals"])
        case["conn_none"] = (not case["vals"]) and rng.random() < 0.5
    else:
        # make max |coef| a power of two so the common factor is exact
        ks = [k for k in terms]
        if not ks:
            terms[()] = 2
            ks = [()]
        for k in ks:
            terms[k] = rng.choice([-1, 1, -2, 2, 0.5, 4, -4])
        case["norm_value"] = rng.choice([1, 2, 0.5, 3, -1])
    return case


def exhaustive_cases(polys):
    """TLC-emitted universe x subvalue over every partial assignment of domain values / subgraph over every node set and
    0/1 connection map / normalize, as dict and as a model of each domain"""
    import itertools
    out = []
    for p in polys:
        for spin in (False, True):
            dom = [1, -1] if spin else [0, 1]
            for kind, labels in (("dict", ["a", (1, 2)]), ("PUSO" if spin else "PUBO", ["x", 3])):
                terms = pure.instantiate(p, labels)
                for r in (1, 2):
                    for chosen in itertools.combinations(labels, r):
                        for vals in itertools.product(dom, repeat=r):
                            out.append({"op": "subvalue", "spin": spin, "kind": kind, "labels": labels, "terms": dict(terms),
                                        "method": kind != "dict", "vals": [[l, v] for l, v in zip(chosen, vals)]})
                for r in (0, 1, 2):
                    for nodes in itertools.combinations(labels, r):
                        outside = [l for l in labels if l not in nodes]
                        for vals in itertools.product(dom, repeat=len(outside)):
                            out.append({"op": "subgraph", "spin": spin, "kind": kind, "labels": labels, "terms": dict(terms),
                                        "method": kind != "dict", "nodes": list(nodes), "vals": [[l, v] for l, v in zip(outside, vals)],
                                        "conn_none": False})
                if terms and max(abs(v) for v in terms.values()) in (1, 2):
                    out.append({"op": "normalize", "spin": spin, "kind": kind, "labels": labels, "terms": dict(terms),
                                "method": kind != "dict", "norm_value": 3})
    return out


def run_case(case, cid):
    from qubovert import utils
    import sympy
    cls = pure.classes()[case["kind"]]
    matrix = case["kind"].endswith("Matrix")
    nm = pure.Namer(case["labels"], matrix)
    from fractions import Fraction
    sc = Fraction(2) ** (-40 if (cid % 7 == 3 and case["op"] != "subsym") else 0)     # real coefficients far below 1
    if case["op"] == "normalize" and cid % 7 == 5:
        sc = Fraction(2) ** 1021          # ... and near the top of the floating-point range (the result is of ordinary size)
    model = cls({k: v * float(sc) for k, v in case["terms"].items()} if sc != 1 else case["terms"])
    if case["kind"] != "dict" and cid % 5 == 0:
        # a model object with history: a term over one more label came and went (its caches still mention the label)
        extra = 7 if matrix else "__gone"
        model[(extra,)] += 1
        model[(extra,)] -= 1
    if case["kind"] != "dict" and cid % 4 == 1 and len(dict.keys(model)) >= 2:
        # history: the same request was answered before, then a term left the model through a plain dict method
        try:
            with warnings.catch_warnings():
                warnings.simplefilter("ignore")
                if case["op"] == "subvalue":
                    model.subvalue({l: v for l, v in case["vals"]})
                elif case["op"] == "subgraph":
                    model.subgraph(set(case["nodes"]), None if case.get("conn_none") else {l: v for l, v in case["vals"]})
        except Exception:      # noqa
            pass
        k_ = sorted(dict.keys(model), key=repr)[cid % len(dict.keys(model))]
        if cid % 8 == 1:
            del model[k_]
        else:
            model.pop(k_)
    snap = copy.deepcopy(model)
    rec = pure.blank(cid, case["op"])
    rec["spin"] = rec["result_spin"] = case["spin"]
    rec["expect_type"] = case["kind"]
    try:
        terms = [(k, common.frac(v) / sc) for k, v in pure.items_of(snap)]       # what TLC sees is the unscaled model
        with warnings.catch_warnings():
            warnings.simplefilter("ignore")
            if case["op"] == "subvalue":
                values = {l: v for l, v in case["vals"]}
                res = pure.twice(lambda: model.subvalue(values) if case["method"] else utils.subvalue(values, model))
            elif case["op"] == "subsym":
                syms = {l: sympy.Symbol("s%d" % i) for i, (l, v) in enumerate(case["vals"])}
                sub = model.subvalue(dict(syms)) if case["method"] else utils.subvalue(dict(syms), model)
                if hasattr(sub, "subs"):
                    res = sub.subs({syms[l]: v for l, v in case["vals"]})
                else:
                    res = {k: (v.subs({syms[l]: vv for l, vv in case["vals"]}) if hasattr(v, "subs") else v) for k, v in sub.items()}
                    res = {k: v for k, v in res.items() if v != 0}
                    rec["expect_type"] = "dict"
            elif case["op"] == "subgraph":
                conn = None if case.get("conn_none") else {l: v for l, v in case["vals"]}
                nodes = set(case["nodes"])
                res = pure.twice(lambda: model.subgraph(nodes, conn) if case["method"] else utils.subgraph(model, nodes, conn))
            else:
                if case["method"]:
                    res = copy.deepcopy(model)
                    res.normalize(case["norm_value"])
                else:
                    res = pure.twice(lambda: utils.normalize(model, case["norm_value"]))
        rterms = pure.items_of(res)
        if sc != 1 and case["op"] != "normalize":
            rterms = [(k, common.frac(v) / sc) for k, v in rterms]
        extra = [common.frac(case.get("norm_value", 1))]
        den = common.common_den([common.frac(v) for _, v in terms] + [common.frac(v) for _, v in rterms] + extra)
        rec["den"] = den
        rec["model"] = pure.enc_terms(terms, nm, den)
        rec["result"] = pure.enc_terms(rterms, nm, den)
        rec["rtype"] = type(res).__name__
        rec["vals"] = [[nm(l), int(v)] for l, v in case.get("vals", [])]
        rec["nodes"] = [nm(l) for l in case.get("nodes", [])]
        rec["norm_value"] = common.to_int(common.frac(case.get("norm_value", 1)), den)
        rec["unchanged"] = pure.same(model, snap)
    except common.Inexact as e:
        rec["raised"] = "Inexact: %s" % e
    except Exception as e:                 # noqa
        rec["raised"] = type(e).__name__ + ": " + str(e)[:100]
    return rec


def describe(case):
    return {k: (repr(v) if k in ("labels", "terms", "vals", "nodes") else v) for k, v in case.items() if k != "_index"}


def run(tier, out, replay=None):
    wd = common.workdir("c18")
    rng = common.rng_for(out.seed, "c18")
    try:
        cases = [gen_case(rng) for _ in range(20000 if tier == "thorough" else 3000)]
        polys, udesc = pure.universe("2f" if tier == "thorough" else "2s", wd)
        ex = exhaustive_cases(polys)
        cases = ex + cases
        out.set("exhaustive_universe", udesc)
        out.set("exhaustive_cases", len(ex))
        for i, c in enumerate(cases):
            c["_index"] = i
        if replay:
            cases = [cases[json.load(open(replay))["record"]["case_index"]]]
        recs = [run_case(c, i) for i, c in enumerate(cases)]
        out.add("evaluations", len(recs))
        out.set("distinct_nontrivial", len({json.dumps(describe(c), sort_keys=True) for c in cases if any(k for k in c["terms"])}))
        out.set("rule", "seeded generator: subvalue / subgraph / normalize (functions and methods) and symbolic subvalue x dict / every model kind "
                        "x models with <= 4 variables, degree <= 3 x partial assignments (domain values and other small integers), node sets, "
                        "connection maps (incl. None); non-trivial = the model has a non-constant term; canonical result compared by TLC")
        out.sample(describe(cases[0]))
        pure.check(out, wd, recs, cases, "c18",
                   lambda cl, rec, case: "%s %s(%s)%s" % (cl, case["op"], case["kind"], " method" if case["method"] else ""), describe)
        out.assumptions += ["normalize: max |coef| is a power of two in generated models so the common factor is exact; the function form is not "
                            "called on empty models (max() of nothing)",
                            "subgraph: only the model's own constant is dropped (a term lying wholly outside `nodes` contributes a constant)"]
    finally:
        common.cleanup(wd)
