"""C05 - model arithmetic and evaluation agree with polynomial arithmetic.

spec/PolyLaws.tla (TLC) ties spec/Poly.tla to the pointwise meaning of + - * ** and evaluation; spec/ModelObj.tla composes every
operator (binary, reflected, in-place, scalar, power, negation, division) from one __setitem__ exactly as the code does and is
model-checked for canonical storage; behaviours generated from it are replayed on the ten real classes and every step is
validated by spec/ModelObjTrace.tla: stored function pinned, raw keys canonical, result class, operands unchanged, KeyError for
degree > 2 products of quadratic kinds, and all value functions against direct evaluation."""
import json
import os

from . import c14, common, graph, modelobj
from .tlc import run_tlc

FAMILIES = [("pubo", "PUBO", "PCBO", ["a", "b", "c"]), ("puso", "PUSO", "PCSO", ["a", "b", "c"]),
            ("qubo", "QUBO", "PUBO", ["a", "b", "c"]), ("quso", "QUSO", "PUSO", ["a", "b", "c"]),
            ("bmat", "PUBOMatrix", "QUBOMatrix", [0, 2, 3]), ("smat", "PUSOMatrix", "QUSOMatrix", [0, 2, 3])]
TRACE_INVS = ["TermsMatch", "KindMatch", "ImplNoRaise", "ImplStoredCanonical", "ImplValue", "ImplUnchangedOthers", "ImplEquality",
              "ImplUpperBounds", "NotStuck", "Drift"]
OPS = "ArithOps"


def generic_run(tier, out, tag, families, ops, trace_invs, mc_invs, sim_n, sim_depth, walk_fams, walk_budget, mc_depth, replay=None,
                extra_design=None):
    wd = common.workdir(tag)
    rng = common.rng_for(out.seed, tag)
    thorough = tier == "thorough"
    try:
        if replay:
            rec = json.load(open(replay))["record"]
            fam = [f for f in families if f[0] == rec["family"]][0]
            codec = modelobj.LabelCodec(fam[3], c14.labels_from_desc(rec.get("py_labels")))
            traces = modelobj.replay([rec["ops"]], [fam[1], fam[2]], codec)
            c14.validate(out, wd, traces, fam, "replay", invs=trace_invs)
            out.sample({"replayed_ops": rec["ops"]})
            return
        cfg = os.path.join(wd, "mc.cfg")
        if extra_design:
            extra_design(out, thorough)
        spec_states = {}
        for fam in families:
            name, k1, k2, labels = fam
            c14.write_cfg(cfg, "Spec", k1, k2, labels[:2], mc_depth[1 if thorough else 0], invs=mc_invs, ops=ops)
            r = run_tlc("MCModelObj", cfg, timeout=3000, name="mo_%s_mc_%s" % (tag, name))
            spec_states[name] = {"distinct": r.distinct, "generated": r.generated}
            out.add("states", r.distinct)
            out.add("transitions", r.generated)
            if not r.ok:
                out.violation("spec:" + ",".join(r.violated), "spec-level %s %s" % (name, ",".join(r.violated)), r.stdout[-3000:])
        out.set("spec_exhaustive", spec_states)
        for famname in walk_fams:
            fam = [f for f in families if f[0] == famname][0]
            name, k1, k2, labels = fam
            c14.write_cfg(cfg, "Spec", k1, k2, labels[:2], 3, invs=["StoredCanonical"], view=False, ops=ops)
            dump = os.path.join(wd, "g_" + name)
            run_tlc("MCModelObj", cfg, timeout=900, workers=8, extra=["-dump", "dot", dump], name="mo_%s_dump" % tag)
            adj, init, nlabels = graph.parse_dot(dump + ".dot", want_labels=True)
            os.remove(dump + ".dot")
            adj, _ = graph.relabel_by_dst_op(adj, nlabels)
            walks, covered, total = graph.cover_walks(adj, init, rng, walk_budget[1 if thorough else 0], max_len=40)
            out.add("graph_edges_total", total)
            out.add("graph_edges_replayed", covered)
            ops_list = [[eval(l) for l in w] for w in walks]
            pl, desc = c14.py_labels(rng, labels)
            codec = modelobj.LabelCodec(labels, pl)
            traces = modelobj.replay(ops_list, [k1, k2], codec)
            for t in traces:
                t["py_labels"] = desc
            c14.validate(out, wd, traces, fam, "walk", invs=trace_invs)
        for fam in families:
            name, k1, k2, labels = fam
            c14.write_cfg(cfg, "Spec", k1, k2, labels, 99, invs=["StoredCanonical"], view=False, keylen=3, maxterms=6,
                          constraint=False, ops=ops)
            simdir = os.path.join(wd, "sim_" + name)
            os.makedirs(simdir)
            run_tlc("MCModelObj", cfg, timeout=1500, workers=1,
                    simulate="file=%s/tr,num=%d" % (simdir, sim_n[1 if thorough else 0]),
                    extra=["-depth", str(sim_depth), "-seed", str(out.seed + 31)], name="mo_%s_sim_%s" % (tag, name))
            ops_list = c14.ops_from_sim(os.path.join(simdir, "tr"))
            out.add("simulated_behaviours", len(ops_list))
            pl, desc = c14.py_labels(rng, labels)
            codec = modelobj.LabelCodec(labels, pl)
            traces = modelobj.replay(ops_list, [k1, k2], codec)
            for t in traces:
                t["py_labels"] = desc
            if traces:
                if name in ("puso", "pcso", "bmat"):
                    out.sample({"family": name, "python_labels": repr(pl), "ops": ops_list[0][:6]})
                c14.validate(out, wd, traces, fam, "sim", invs=trace_invs)
    finally:
        common.cleanup(wd)


def poly_laws(out, thorough):
    for cfgname in (["PolyLaws_pair.cfg", "PolyLaws_single.cfg"] if thorough else ["PolyLaws_pair.cfg", "PolyLaws_single2.cfg"]):
        r = run_tlc("PolyLaws", cfgname, timeout=1500, name="polylaws_" + cfgname[:-4])
        out.add("states", r.distinct)
        out.add("transitions", r.generated)
        out.set("polylaws_" + cfgname[:-4], r.distinct)
        if not r.ok:
            out.violation("spec:" + ",".join(r.violated), "spec-level PolyLaws " + ",".join(r.violated), r.stdout[-2500:])


BOOL_KINDS = ["QUBO", "PUBO", "PCBO", "QUBOMatrix", "PUBOMatrix"]
SPIN_KINDS = ["QUSO", "PUSO", "PCSO", "QUSOMatrix", "PUSOMatrix"]
QUAD = {"QUBO", "QUSO", "QUBOMatrix", "QUSOMatrix"}


def _cls(kind):
    import qubovert as qv
    import qubovert.utils as qu
    return getattr(qv, kind, None) or getattr(qu, kind)


def pool_labels(pool):
    return [0, 1, 2] if pool < 0 else list(common.LABEL_POOLS[pool])[:3]


def pair_record(rid, kl, kr, spin, pa, pb, pool, scale_exp=0):
    """a (+|-|*) b on the real classes; everything observed, nothing judged.
    scale_exp: both operands are scaled by 2^scale_exp (real coefficients far from 1; exact in binary floating point); the
    record holds the unscaled numerators (sums: divided by the scale, products: by its square, powers: by its k-th power)"""
    import operator
    from fractions import Fraction
    from . import pure
    labels = pool_labels(pool)
    sc = Fraction(2) ** scale_exp
    names = {(type(l).__name__, l): "L%d" % i for i, l in enumerate(labels)}

    def raw(d, power=1):
        return [[[names[(type(x).__name__, x)] for x in k], common.to_int(common.frac(v) / sc ** power, 1)] for k, v in dict.items(d)]
    ta, tb = pure.instantiate(pa, labels), pure.instantiate(pb, labels)
    if scale_exp:
        ta = {k: v * float(sc) for k, v in ta.items()}
        tb = {k: v * float(sc) for k, v in tb.items()}
    a, b = _cls(kl)(ta), _cls(kr)(tb)
    a0, b0 = list(dict.items(a)), list(dict.items(b))
    def intended(p):       # what the operand was MEANT to be (the constructor is part of what is judged)
        return [[[names[(type(x).__name__, x)] for x in k], int(v)] for k, v in pure.instantiate(p, labels).items()]
    rec = {"id": rid, "kl": kl, "kr": kr, "spin": spin, "a": intended(pa), "b": intended(pb), "ops": [], "pool": pool, "scale_exp": scale_exp,
           "pa": [[list(k), v] for k, v in pa.items()], "pb": [[list(k), v] for k, v in pb.items()]}
    for opname, f in (("add", operator.add), ("sub", operator.sub), ("mul", operator.mul)):
        e = {"op": opname, "raised": "", "res": [], "rkind": "", "a_same": True, "b_same": True, "comm": "na"}
        try:
            r = f(a, b)
            e["res"], e["rkind"] = raw(r, 2 if opname == "mul" else 1), type(r).__name__
            if opname != "sub":
                try:
                    r2 = f(b, a)
                    e["comm"] = "eq" if (r == r2 and r2 == r) else "ne"
                except KeyError:
                    pass
        except Exception as ex:      # noqa
            e["raised"] = type(ex).__name__
        e["a_same"] = list(dict.items(a)) == a0 and type(a).__name__ == kl
        e["b_same"] = list(dict.items(b)) == b0 and type(b).__name__ == kr
        rec["ops"].append(e)
    # the in-place forms, each on a fresh copy of a (built like a, not by copy()): value and bookkeeping afterwards
    for opname in ("iadd", "isub", "imul", "update"):
        e = {"op": opname, "raised": "", "res": [], "rkind": "", "a_same": True, "b_same": True, "comm": "na", "vars": [], "deg": 0, "nvars": 0}
        a2 = _cls(kl)(ta)
        try:
            if opname == "iadd":
                a2 += b
            elif opname == "isub":
                a2 -= b
            elif opname == "imul":
                a2 *= b
            else:
                a2.update(b)
            e["res"], e["rkind"] = raw(a2, 2 if opname == "imul" else 1), type(a2).__name__
            e["vars"] = [names.get((type(x).__name__, x), "?") for x in a2.variables]
            dg = a2.degree
            e["deg"], e["nvars"] = (int(dg) if dg == dg and abs(dg) < 10 ** 6 else -1), int(a2.num_binary_variables)
        except Exception as ex:      # noqa
            e["raised"] = type(ex).__name__
        e["b_same"] = list(dict.items(b)) == b0 and type(b).__name__ == kr
        rec["ops"].append(e)
    # powers and negation of a, once per left operand (when the right operand is the empty polynomial)
    if not pb:
        for opname, k in (("pow2", 2), ("pow3", 3), ("pow4", 4), ("pow5", 5), ("neg", 1)):
            e = {"op": opname, "raised": "", "res": [], "rkind": "", "a_same": True, "b_same": True, "comm": "na"}
            try:
                r = -a if opname == "neg" else a ** k
                e["res"], e["rkind"] = raw(r, k), type(r).__name__
            except Exception as ex:      # noqa
                e["raised"] = type(ex).__name__
            e["a_same"] = list(dict.items(a)) == a0 and type(a).__name__ == kl
            rec["ops"].append(e)
    return rec


def _pair_chunk(arg):
    """some ordered pairs of classes x (left universe x right universe): run in a worker process, judged by its own TLC run"""
    idx, groups, lefts, rights, wd = arg
    os.environ.pop(common.GUARD, None)
    recs = []
    for kl, kr, spin, pool in groups:
        for pa in lefts:
            if kl in QUAD and any(len(k) > 2 for k in pa):
                continue
            for pb in rights:
                if kr in QUAD and any(len(k) > 2 for k in pb):
                    continue
                recs.append(pair_record(len(recs) + 1, kl, kr, spin, pa, pb, pool))
        # the same with coefficients of the order 1e-13 (sums ~1e-13, products ~1e-26), for a part of the left operands
        for pa in lefts[1:9]:
            if kl in QUAD and any(len(k) > 2 for k in pa):
                continue
            for pb in rights[::3]:
                if kr in QUAD and any(len(k) > 2 for k in pb):
                    continue
                recs.append(pair_record(len(recs) + 1, kl, kr, spin, pa, pb, pool, scale_exp=-43))
    rf = os.path.join(wd, "pairs_%d.ndjson" % idx)
    common.write_ndjson(rf, recs)
    r = run_tlc("CheckBin", "CheckBin.cfg", env={"QV_RECS": rf}, cont=True, timeout=3000, workers=2, heap="2g", name="checkbin_%d" % idx)
    viol = []
    for v in r.viol_lines:
        clause, i = v[1].strip('"'), int(v[2])
        rc = recs[i - 1]
        if (clause, rc["kl"], rc["kr"]) not in [(x[0], x[1]["kl"], x[1]["kr"]) for x in viol]:
            viol.append((clause, rc))
    os.remove(rf)
    return {"n": len(recs), "distinct": r.distinct, "generated": r.generated, "viol": viol,
            "broken": (bool(r.violated) or not r.completed) and not r.viol_lines, "tail": r.stdout[-1200:]}


def pairs_tier(out, wd, rng, thorough):
    """every ordered pair of classes of one domain x ordered pairs of universe polynomials x {+,-,*}.
    thorough: the whole universe on both sides; quick: left operands with coefficient 1 only (37 of the 129)"""
    from concurrent.futures import ProcessPoolExecutor
    from . import pure
    polys, desc = pure.universe("3t", wd)
    lefts = polys if thorough else [p for p in polys if all(v == 1 for v in p.values())]
    pairs = [(kl, kr, False) for kl in BOOL_KINDS for kr in BOOL_KINDS] + [(kl, kr, True) for kl in SPIN_KINDS for kr in SPIN_KINDS]
    groups = []
    for kl, kr, spin in pairs:
        matrix = "Matrix" in kl or "Matrix" in kr
        groups.append((kl, kr, spin, -1 if matrix else rng.randrange(len(common.LABEL_POOLS))))
    nchunks = 50 if thorough else 14
    args = [(i, groups[i::nchunks], lefts, polys, wd) for i in range(nchunks)]
    with ProcessPoolExecutor(max_workers=14 if not thorough else 8) as ex:
        results = list(ex.map(_pair_chunk, args))
    out.set("operand_pair_universe", dict(desc, left_operands=len(lefts), right_operands=len(polys), class_pairs=len(pairs),
                                          operators=["add", "sub", "mul", "iadd", "isub", "imul", "update"]))
    for res in results:
        out.add("operand_pairs_run", res["n"])
        out.add("states", res["distinct"])
        out.add("transitions", res["generated"])
        for clause, rc in res["viol"]:
            out.violation(clause, "pairs %s %s op %s" % (clause, rc["kl"], rc["kr"]), rc, {"pair": rc})
        if res["broken"]:
            out.violation("spec:CheckBin", "CheckBin did not complete", res["tail"], None)


def value_tier(out, wd, thorough):
    """the four evaluation functions on raw dictionaries (repeated labels inside a key, one monomial under several keys) x every
    assignment x dict / list / tuple; judged by spec/CheckValue.tla"""
    import itertools
    from qubovert import utils
    keys = [(), (0,), (1,), (0, 1), (1, 0), (0, 0), (1, 1, 1), (0, 0, 1), (0, 1, 0), (1, 0, 0, 1), (0, 0, 0), (2, 0, 2)]
    polys = [{k: c} for k in keys for c in (1, -2)]
    polys += [{k1: c1, k2: c2} for k1, k2 in itertools.combinations(keys, 2) for c1, c2 in ((1, 1), (1, -1), (2, 3))]
    if not thorough:
        polys = polys[::2]
    recs = []
    for spin in (False, True):
        for P in polys:
            n = 1 + max([x for k in P for x in k] + [-1])
            quad_ok = all(len(set(k)) <= 2 if not spin else sum(1 for x in set(k) if k.count(x) % 2) <= 2 for k in P) and all(len(k) <= 2 for k in P)
            fns = ["puso_value"] if spin else ["pubo_value"]
            if quad_ok:
                fns.append("quso_value" if spin else "qubo_value")
            for bits in itertools.product([0, 1], repeat=n):
                asg = [(-1 if b else 1) if spin else b for b in bits]
                for fn in fns:
                    rec = {"fn": fn, "spin": spin, "terms": [[list(k), v] for k, v in P.items()], "ones": [i for i, b in enumerate(bits) if b],
                           "values": [], "raised": ""}
                    try:
                        f = getattr(utils, fn)
                        vals = [f(dict(enumerate(asg)), dict(P)), f(list(asg), dict(P)), f(tuple(asg), dict(P))]
                        rec["values"] = [modelobj.as_int(v) for v in vals]
                    except Exception as e:      # noqa
                        rec["raised"] = type(e).__name__
                    recs.append(rec)
    rf = os.path.join(wd, "values.ndjson")
    common.write_ndjson(rf, recs)
    r = run_tlc("CheckValue", "CheckValue.cfg", env={"QV_RECS": rf}, cont=True, timeout=900, workers=4, name="checkvalue")
    out.add("value_function_calls", 3 * len(recs))
    out.add("states", r.distinct)
    seen = set()
    for v in r.viol_lines:
        rec = recs[int(v[2]) - 1]
        if rec["fn"] in seen:
            continue
        seen.add(rec["fn"])
        out.violation("ValueIsEvaluation", "ValueIsEvaluation %s" % rec["fn"], rec, None)


def replay_pair(out, rc):
    wd = common.workdir("c05p")
    try:
        os.environ.pop(common.GUARD, None)
        rec = pair_record(1, rc["kl"], rc["kr"], rc["spin"], {tuple(k): v for k, v in rc["pa"]}, {tuple(k): v for k, v in rc["pb"]}, rc["pool"],
                          rc.get("scale_exp", 0))
        rf = os.path.join(wd, "pairs.ndjson")
        common.write_ndjson(rf, [rec])
        r = run_tlc("CheckBin", "CheckBin.cfg", env={"QV_RECS": rf}, cont=True, timeout=600, workers=2, name="checkbin_replay")
        for v in r.viol_lines:
            out.violation(v[1].strip('"'), "pairs %s %s op %s" % (v[1].strip('"'), rec["kl"], rec["kr"]), rec, {"pair": rec})
        out.sample({"replayed_pair": [rec["kl"], rec["kr"], rec["a"], rec["b"]]})
    finally:
        common.cleanup(wd)


def run(tier, out, replay=None):
    if replay and "pair" in (json.load(open(replay)).get("record") or {}):
        return replay_pair(out, json.load(open(replay))["record"]["pair"])
    if not replay:
        wd = common.workdir("c05p")
        try:
            pairs_tier(out, wd, common.rng_for(out.seed, "c05p"), tier == "thorough")
            value_tier(out, wd, tier == "thorough")
        finally:
            common.cleanup(wd)
    generic_run(tier, out, "c05", FAMILIES, OPS, TRACE_INVS, ["StoredCanonical", "UpperBounds"], sim_n=(120, 1500), sim_depth=10,
                walk_fams=("pubo", "quso"), walk_budget=(10000, 100000), mc_depth=(3, 4), replay=replay, extra_design=poly_laws)
    out.assumptions += ["integer coefficients in {-1,0,1} for edits; division only by divisors of every coefficient (exactness)",
                        "for two model operands of different classes only the value of the result is judged, not its class",
                        "the state of a quadratic-kind object after an in-place product that raised KeyError is not judged"]
