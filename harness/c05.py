"""C05 - model arithmetic and evaluation agree with polynomial arithmetic.

spec/PolyLaws.tla (TLC) ties spec/Poly.tla to the pointwise meaning of + - * ** and evaluation; spec/ModelObj.tla composes every
operator (binary, reflected, in-place, scalar, power, negation, division) from one __setitem__ exactly as the code does and is
model-checked for canonical storage; behaviours generated from it are replayed on the ten real classes and every step is
validated by spec/ModelObjTrace.tla: stored function pinned, raw keys canonical, result class, operands unchanged, KeyError for
degree > 2 products of quadratic kinds, and all value functions against direct evaluation."""
import json
import os

from . import c14, common, graph, modelobj
from .tlc import run_tlc

FAMILIES = [("pubo", "PUBO", "PCBO", ["a", "b", "c"]), ("puso", "PUSO", "PCSO", ["a", "b", "c"]),
            ("qubo", "QUBO", "PUBO", ["a", "b", "c"]), ("quso", "QUSO", "PUSO", ["a", "b", "c"]),
            ("bmat", "PUBOMatrix", "QUBOMatrix", [0, 2, 3]), ("smat", "PUSOMatrix", "QUSOMatrix", [0, 2, 3])]
TRACE_INVS = ["TermsMatch", "KindMatch", "ImplNoRaise", "ImplStoredCanonical", "ImplValue", "ImplUnchangedOthers",
              "ImplUpperBounds", "NotStuck", "Drift"]
OPS = "ArithOps"


def generic_run(tier, out, tag, families, ops, trace_invs, mc_invs, sim_n, sim_depth, walk_fams, walk_budget, mc_depth, replay=None,
                extra_design=None):
    wd = common.workdir(tag)
    rng = common.rng_for(out.seed, tag)
    thorough = tier == "thorough"
    try:
        if replay:
            rec = json.load(open(replay))["record"]
            fam = [f for f in families if f[0] == rec["family"]][0]
            codec = modelobj.LabelCodec(fam[3], c14.labels_from_desc(rec.get("py_labels")))
            traces = modelobj.replay([rec["ops"]], [fam[1], fam[2]], codec)
            c14.validate(out, wd, traces, fam, "replay", invs=trace_invs)
            out.sample({"replayed_ops": rec["ops"]})
            return
        cfg = os.path.join(wd, "mc.cfg")
        if extra_design:
            extra_design(out, thorough)
        spec_states = {}
        for fam in families:
            name, k1, k2, labels = fam
            c14.write_cfg(cfg, "Spec", k1, k2, labels[:2], mc_depth[1 if thorough else 0], invs=mc_invs, ops=ops)
            r = run_tlc("MCModelObj", cfg, timeout=3000, name="mo_%s_mc_%s" % (tag, name))
            spec_states[name] = {"distinct": r.distinct, "generated": r.generated}
            out.add("states", r.distinct)
            out.add("transitions", r.generated)
            if not r.ok:
                out.violation("spec:" + ",".join(r.violated), "spec-level %s %s" % (name, ",".join(r.violated)), r.stdout[-3000:])
        out.set("spec_exhaustive", spec_states)
        for famname in walk_fams:
            fam = [f for f in families if f[0] == famname][0]
            name, k1, k2, labels = fam
            c14.write_cfg(cfg, "Spec", k1, k2, labels[:2], 3, invs=["StoredCanonical"], view=False, ops=ops)
            dump = os.path.join(wd, "g_" + name)
            run_tlc("MCModelObj", cfg, timeout=900, workers=8, extra=["-dump", "dot", dump], name="mo_%s_dump" % tag)
            adj, init, nlabels = graph.parse_dot(dump + ".dot", want_labels=True)
            os.remove(dump + ".dot")
            adj, _ = graph.relabel_by_dst_op(adj, nlabels)
            walks, covered, total = graph.cover_walks(adj, init, rng, walk_budget[1 if thorough else 0], max_len=40)
            out.add("graph_edges_total", total)
            out.add("graph_edges_replayed", covered)
            ops_list = [[eval(l) for l in w] for w in walks]
            pl, desc = c14.py_labels(rng, labels)
            codec = modelobj.LabelCodec(labels, pl)
            traces = modelobj.replay(ops_list, [k1, k2], codec)
            for t in traces:
                t["py_labels"] = desc
            c14.validate(out, wd, traces, fam, "walk", invs=trace_invs)
        for fam in families:
            name, k1, k2, labels = fam
            c14.write_cfg(cfg, "Spec", k1, k2, labels, 99, invs=["StoredCanonical"], view=False, keylen=3, maxterms=6,
                          constraint=False, ops=ops)
            simdir = os.path.join(wd, "sim_" + name)
            os.makedirs(simdir)
            run_tlc("MCModelObj", cfg, timeout=1500, workers=1,
                    simulate="file=%s/tr,num=%d" % (simdir, sim_n[1 if thorough else 0]),
                    extra=["-depth", str(sim_depth), "-seed", str(out.seed + 31)], name="mo_%s_sim_%s" % (tag, name))
            ops_list = c14.ops_from_sim(os.path.join(simdir, "tr"))
            out.add("simulated_behaviours", len(ops_list))
            pl, desc = c14.py_labels(rng, labels)
            codec = modelobj.LabelCodec(labels, pl)
            traces = modelobj.replay(ops_list, [k1, k2], codec)
            for t in traces:
                t["py_labels"] = desc
            if traces:
                if name in ("puso", "pcso", "bmat"):
                    out.sample({"family": name, "python_labels": repr(pl), "ops": ops_list[0][:6]})
                c14.validate(out, wd, traces, fam, "sim", invs=trace_invs)
    finally:
        common.cleanup(wd)


def poly_laws(out, thorough):
    for cfgname in (["PolyLaws_pair.cfg", "PolyLaws_single.cfg"] if thorough else ["PolyLaws_pair.cfg", "PolyLaws_single2.cfg"]):
        r = run_tlc("PolyLaws", cfgname, timeout=1500, name="polylaws_" + cfgname[:-4])
        out.add("states", r.distinct)
        out.add("transitions", r.generated)
        out.set("polylaws_" + cfgname[:-4], r.distinct)
        if not r.ok:
            out.violation("spec:" + ",".join(r.violated), "spec-level PolyLaws " + ",".join(r.violated), r.stdout[-2500:])


def run(tier, out, replay=None):
    generic_run(tier, out, "c05", FAMILIES, OPS, TRACE_INVS, ["StoredCanonical", "UpperBounds"], sim_n=(120, 1500), sim_depth=10,
                walk_fams=("pubo", "quso"), walk_budget=(10000, 300000), mc_depth=(3, 4), replay=replay, extra_design=poly_laws)
    out.assumptions += ["integer coefficients in {-1,0,1} for edits; division only by divisors of every coefficient (exactness)",
                        "for two model operands of different classes only the value of the result is judged, not its class",
                        "the state of a quadratic-kind object after an in-place product that raised KeyError is not judged"]
