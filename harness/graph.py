"""Behaviours out of TLC: parse `-dump dot,actionlabels` state graphs and `-simulate file=` traces,
and plan walks that cover the transitions of a dumped graph (pattern R of DESIGN 2.2)."""
import collections
import glob
import os
import re

from .tlc import split_top

_RE_EDGE = re.compile(r'^(-?\d+) -> (-?\d+) \[label="((?:[^"\\]|\\.)*)"')
_RE_NODE = re.compile(r'^(-?\d+) \[label="((?:[^"\\]|\\.)*)"(.*)$')


def parse_value(s):
    s = s.strip()
    if s == "TRUE":
        return True
    if s == "FALSE":
        return False
    if s.startswith('"') and s.endswith('"'):
        return s[1:-1]
    if re.fullmatch(r"-?\d+", s):
        return int(s)
    if s.startswith("<<") and s.endswith(">>"):
        return [parse_value(x) for x in split_top(s[2:-2])]
    if s.startswith("{") and s.endswith("}"):
        return ("set", [parse_value(x) for x in split_top(s[1:-1])])
    if s.startswith("[") and s.endswith("]"):
        inner = s[1:-1]
        parts = split_top(inner)
        rec = {}
        for p in parts:
            if "|->" in p:
                k, v = p.split("|->", 1)
                rec[k.strip()] = parse_value(v)
        return rec
    return s


def parse_action(label):
    """'DoExtend("extend",1,2,TRUE)' -> ('DoExtend', ['extend', 1, 2, True])"""
    label = label.replace('\\"', '"')
    i = label.find("(")
    if i < 0:
        return label.strip(), []
    name = label[:i].strip()
    inner = label[i + 1:label.rfind(")")]
    return name, [parse_value(x) for x in split_top(inner)]


def parse_dot(path, want_labels=False):
    adj = collections.defaultdict(list)
    init = None
    labels = {}
    n_edges = 0
    with open(path, errors="replace") as f:
        for line in f:
            m = _RE_EDGE.match(line)
            if m:
                adj[m.group(1)].append((m.group(3), m.group(2)))
                n_edges += 1
                continue
            m = _RE_NODE.match(line)
            if m:
                if init is None and "style = filled" in m.group(3):
                    init = m.group(1)
                if want_labels:
                    labels[m.group(1)] = m.group(2)
                adj.setdefault(m.group(1), [])
    # drop exact duplicate edges
    for k in adj:
        adj[k] = sorted(set(adj[k]))
    return adj, init, labels


def cover_walks(adj, init, rng, budget_steps, max_len=300):
    """Plan walks from the initial state that traverse as many distinct edges as possible within
    budget_steps.  Returns (walks, covered, total) with each walk a list of edge labels."""
    uncovered = {n: list(es) for n, es in adj.items()}
    for n in uncovered:
        rng.shuffle(uncovered[n])
    total = sum(len(v) for v in uncovered.values())
    covered = 0
    walks = []
    steps = 0
    exhausted = False
    while steps < budget_steps and not exhausted:
        cur, walk = init, []
        while steps < budget_steps and len(walk) < max_len:
            if uncovered[cur]:
                lab, dst = uncovered[cur].pop()
                covered += 1
                walk.append(lab)
                steps += 1
                cur = dst
                continue
            # nearest node with an uncovered edge
            prev = {cur: None}
            dq = collections.deque([cur])
            target = None
            while dq:
                x = dq.popleft()
                if uncovered[x]:
                    target = x
                    break
                for lab, y in adj[x]:
                    if y not in prev:
                        prev[y] = (x, lab)
                        dq.append(y)
            if target is None:
                if cur == init or not walk:
                    exhausted = True
                break
            path = []
            x = target
            while prev[x] is not None:
                path.append(prev[x][1])
                x = prev[x][0]
            path.reverse()
            if len(walk) + len(path) >= max_len:
                break
            walk.extend(path)
            steps += len(path)
            cur = target
        if walk:
            walks.append(walk)
        elif not exhausted:
            # nothing reachable from init with budget left
            if not any(uncovered[n] for n in uncovered):
                exhausted = True
            else:
                # remaining uncovered edges are unreachable within max_len from init in this plan
                break
    return walks, covered, total


_RE_STATE = re.compile(r"^STATE_(\d+) ==\s*$")


def parse_sim_files(prefix):
    """TLC -simulate file=<prefix>: one TLA+ file per behaviour, blocks 'STATE_n ==' followed by
    '/\\ var = value' conjuncts.  Returns list of behaviours; each a list of {var: parsed value}."""
    out = []
    for fn in sorted(glob.glob(prefix + "*")):
        if os.path.isdir(fn):
            continue
        states, cur = [], None
        buf = []
        with open(fn, errors="replace") as f:
            lines = f.read().splitlines()
        blocks = []
        for line in lines:
            if _RE_STATE.match(line.strip()):
                if cur is not None:
                    blocks.append(buf)
                cur, buf = True, []
            elif cur is not None:
                if line.startswith("====") or line.startswith("\\* "):
                    continue
                buf.append(line)
        if cur is not None:
            blocks.append(buf)
        for b in blocks:
            text = "\n".join(b)
            st = {}
            # split on top-level '/\ name = '
            parts = re.split(r"(?:^|\n)/\\ ", text)
            for p in parts:
                p = p.strip()
                if not p:
                    continue
                if "=" in p:
                    k, v = p.split("=", 1)
                    st[k.strip()] = parse_value(" ".join(v.split()))
            states.append(st)
        if states:
            out.append(states)
    return out


def op_of_node_label(label, var="op"):
    """value of the history variable `var` in a dumped node label ('/\\ a = ..\\n/\\ op = <<..>>')"""
    txt = label.replace("\\n", "\n").replace('\\"', '"').replace("\\\\", "\\")
    parts = re.split(r"(?:^|\n)/\\ ", txt)
    for p in parts:
        p = p.strip()
        if p.startswith(var + " ="):
            return parse_value(" ".join(p.split("=", 1)[1].split()))
    return None


def relabel_by_dst_op(adj, labels, var="op"):
    """replace every edge label by the history variable of its destination node (graph dumped WITHOUT a VIEW)"""
    ops = {n: op_of_node_label(l, var) for n, l in labels.items()}
    out = {}
    for n, es in adj.items():
        out[n] = sorted({(repr(ops[d]), d) for _, d in es})
    return out, ops
