"""Shared by C11 / C12 / C17: call generation, running the driver subprocess against a fresh build,
exact conversion of the kernel trace and the API results into integer records for TLC."""
import itertools
import json
import math
import os
import subprocess
import sys
from fractions import Fraction

from . import common
from .tlc import MachineryError

PY = sys.executable
LABEL_SETS = [["'a'", "'b'", "'c'", "'d'", "'e'", "'f'"], ["0", "1", "2", "3", "4", "5"], ["3", "'x'", "(1, 2)", "7", "'__b'", "1.5"],
              ["5", "2", "9", "0", "7", "4"]]


def run_driver(calls, so, wd, tag, preload=None, extra_env=None, timeout=1800):
    cp = os.path.join(wd, "calls_%s.json" % tag)
    op = os.path.join(wd, "out_%s.ndjson" % tag)
    json.dump(calls, open(cp, "w"))
    env = dict(os.environ)
    env["QV_SO"] = so
    env["PYTHONHASHSEED"] = "0"
    if preload:
        env["LD_PRELOAD"] = preload
    if extra_env:
        env.update(extra_env)
    p = subprocess.run([PY, os.path.join(common.VERIF, "harness", "anneal_driver.py"), cp, op], env=env,
                       stdout=subprocess.PIPE, stderr=subprocess.STDOUT, text=True, timeout=timeout, errors="replace")
    outs = []
    if os.path.exists(op):
        for line in open(op):
            line = line.strip()
            if line:
                try:
                    outs.append(json.loads(line))
                except ValueError:
                    pass
    return p.returncode, p.stdout, outs


def gen_model(rng, spin_fn, nmax=4, maxdeg=2, matrix=False, halves=True, allow_offset=True):
    """terms over label names 'L0'.. (or ints for matrix kinds); returns (terms, den, names)"""
    n = rng.randint(1, nmax)
    if matrix:
        labs = sorted(rng.sample(range(0, n + 2), n))          # gaps allowed
    else:
        labs = ["L%d" % i for i in range(n)]
    den = 2 if halves and rng.random() < 0.3 else 1
    terms = []
    keys = []
    for d in range(1, maxdeg + 1):
        keys += list(itertools.combinations(labs, d))
    rng.shuffle(keys)
    nt = rng.randint(0, min(len(keys), 6))
    for k in keys[:nt]:
        c = rng.choice([-3, -2, -1, 1, 2, 3])
        kk = list(k)
        rng.shuffle(kk)
        terms.append([kk, c])
    if allow_offset and rng.random() < 0.5:
        terms.append([[], rng.choice([-2, -1, 1, 3])])
    return terms, den, labs


def schedule_explicit(rng):
    n = rng.randint(0, 4)
    return [rng.choice([0.0, 0.0, 0.5, 1.0, 2.0, 3.5]) for _ in range(n)]


def hexfrac(s):
    return Fraction(float.fromhex(s))


def scaled(fr, den):
    v = fr * den
    if v.denominator != 1 or abs(v.numerator) >= (1 << 30):
        return None
    return int(v.numerator)


def parse_events(lines, den):
    """kernel trace lines -> event records with exact integers; returns (events, bad_reason)"""
    evs = []
    for ln in lines:
        p = ln.split()
        if not p:
            continue
        if p[0] == "A":
            evs.append({"e": "A", "k": int(p[1]), "st": [int(x) for x in p[3:]]})
        elif p[0] == "S":
            dE, T, u = float.fromhex(p[4]), float.fromhex(p[5]), float.fromhex(p[6])
            d = scaled(Fraction(dE), den)
            if d is None:
                return evs, "non-representable dE %r" % dE
            below = bool(dE > 0 and T > 0 and u < math.exp(-dE / T))
            evs.append({"e": "S", "t": int(p[1]), "j": int(p[2]), "i": int(p[3]), "dE": d, "tpos": bool(T > 0),
                        "below": below, "acc": p[7] == "1", "u_ok": bool(0.0 <= u < 1.0), "_T": T})
        elif p[0] == "E":
            v = scaled(hexfrac(p[2]), den)
            if v is None:
                return evs, "non-representable value %s" % p[2]
            evs.append({"e": "E", "k": int(p[1]), "val": v, "st": [int(x) for x in p[3:]]})
    return evs, ""


def api_to_ints(api, den, names):
    """api results (label reprs, hex values) -> [{st: [[name, v]..], val: int, spin: bool}]; names: repr -> name"""
    out = []
    for r in api:
        v = scaled(hexfrac(r["val"]), den)
        if v is None:
            v = -999999
        st = []
        for krepr, val in r["st"]:
            st.append([names.get(krepr, "?" + krepr), val if isinstance(val, int) and not isinstance(val, bool) else -9])
        out.append({"st": st, "val": v, "spin": r["spin"]})
    return out


def find_pi(kernel_terms, user_terms, N, keys, api_sts, ev_sts):
    """witness index -> label: a bijection from 0..N-1 to `keys` mapping the kernel polynomial onto the user's
    (without offset) and the kernel's final states onto the API states.  TLC verifies the witness."""
    keys = list(keys)
    if len(keys) != N or N > 7:
        return []
    up = {}
    for k, c in user_terms:
        kk = frozenset(x for x in k if list(k).count(x) % 2 == 1)
        if kk:
            up[kk] = up.get(kk, 0) + c
    up = {k: v for k, v in up.items() if v}
    for perm in itertools.permutations(keys):
        kp = {}
        for k, c in kernel_terms.items():
            kk = frozenset(perm[i] for i in k)
            kp[kk] = kp.get(kk, 0) + c
        kp = {k: v for k, v in kp.items() if v}
        if kp != up:
            continue
        ok = True
        for a_st, e_st in zip(api_sts, ev_sts):
            d = dict((x[0], x[1]) for x in a_st)
            if any(d.get(perm[i]) != e_st[i] for i in range(N)):
                ok = False
                break
        if ok:
            return list(perm)
    return []


def kernel_terms_from_marshal(m, den):
    """polynomial (dict frozenset(indices) -> scaled int) from the marshalled arrays, as the harness's search aid"""
    out = {}
    if m.get("kernel") == "quso":
        N = len(m["h"])
        for i, h in enumerate(m["h"]):
            s = scaled(Fraction(h), den)
            if s:
                out[frozenset([i])] = out.get(frozenset([i]), 0) + s
        pos = 0
        for i in range(N):
            for q in range(m["nn"][i]):
                n, J = m["nb"][pos], m["J"][pos]
                pos += 1
                if i < n:
                    s = scaled(Fraction(J), den)
                    out[frozenset([i, n])] = out.get(frozenset([i, n]), 0) + (s or 0)
    elif m.get("kernel") == "puso":
        pos = 0
        for q, ncp in enumerate(m["nc"]):
            key = m["tm"][pos:pos + ncp]
            pos += ncp
            kk = frozenset(x for x in key if key.count(x) % 2 == 1)
            s = scaled(Fraction(m["cp"][q]), den)
            out[kk] = out.get(kk, 0) + (s or 0)
    return {k: v for k, v in out.items() if v}


def marshal_ints(m, den):
    """marshalled arrays with couplings as scaled integers (None if not representable)"""
    def sc(xs):
        r = [scaled(Fraction(x), den) for x in xs]
        return None if any(v is None for v in r) else r
    if m.get("kernel") == "quso":
        h, J = sc(m["h"]), sc(m["J"])
        if h is None or J is None:
            return None
        return {"kernel": "quso", "N": len(m["h"]), "h": h, "nn": m["nn"], "nb": m["nb"], "J": J, "nc": [], "tm": [], "cp": []}
    if m.get("kernel") == "puso":
        cp = sc(m["cp"])
        if cp is None:
            return None
        return {"kernel": "puso", "N": m["N"], "h": [], "nn": [], "nb": [], "J": [], "nc": m["nc"], "tm": m["tm"], "cp": cp}
    return None
