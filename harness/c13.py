"""C13 - AnnealResults keeps `best` under every list operation.

spec/AnnealResults.tla is model-checked exhaustively (TLC); its dumped state graph and simulated
behaviours are replayed on the real qubovert.sim.AnnealResults; the recorded projections are
validated by spec/AnnealResultsTrace.tla (TLC).  Python only drives and records."""
import json
import os

from . import common, graph
from .tlc import run_tlc

NBITS = 7


def make_state(i, spin):
    st = {}
    for b in range(NBITS):
        bit = (i >> b) & 1
        st[b] = (1 - 2 * bit) if spin else bit
    st["f"] = 1 if spin else 0          # always bit 0: a boolean state always contains a 0
    return st


def decode_state(st):
    """id encoded in a state, whatever its form; -1 if the state is not one the harness made"""
    try:
        if set(st) != set(range(NBITS)) | {"f"}:
            return -1, None
        vals = list(st.values())
        boolean = any(v == 0 for v in vals)
        i = 0
        for b in range(NBITS):
            v = st[b]
            if boolean:
                if v not in (0, 1):
                    return -1, None
                bit = v
            else:
                if v not in (1, -1):
                    return -1, None
                bit = (1 - v) // 2
            i |= bit << b
        if st["f"] != (0 if boolean else 1):
            return -1, None
        return i, (not boolean)
    except Exception:
        return -1, None


class HarnessError(Exception):
    pass


class Replayer:
    def __init__(self, vals, shift=0):
        self.shift = shift          # real value = specification value - shift (cfg files cannot hold negative numbers)
        from qubovert.sim import AnnealResults, AnnealResult
        self.AR, self.R = AnnealResults, AnnealResult
        self.c = {1: AnnealResults(), 2: AnnealResults()}
        self.next_id = 1
        self.maxv, self.minv = max(vals), min(vals)

    def new(self, v):
        i = self.next_id
        self.next_id += 1
        spin = (i % 2 == 1)
        return self.R(make_state(i, spin), v - self.shift, spin)

    def proj_elem(self, r):
        try:
            i, form_spin = decode_state(r.state)
            sp = bool(r.spin)
            if form_spin is not None and form_spin != sp:
                i = -1                     # state form and flag disagree
            v = r.value
            if not isinstance(v, int):
                v = -999
            else:
                v += self.shift
            return [i, v, sp]
        except Exception:
            return [-1, -999, False]

    def snapshot(self):
        items, best = [], []
        for k in (1, 2):
            col = self.c[k]
            items.append([self.proj_elem(r) for r in list.__iter__(col)])
            b = getattr(col, "best", "missing")
            if b is None:
                best.append([])
            elif isinstance(b, str):
                best.append([-2, -999, False])
            else:
                best.append(self.proj_elem(b))
        return items, best

    def apply(self, op):
        name, a = op[0], op[1:]
        c = self.c
        rtype = ""
        raised = ""
        self.nops = getattr(self, "nops", 0) + 1
        form = self.nops % 4

        def ix(i):
            """an index in one of the forms a plain list accepts: int, an object with __index__, numpy.int64"""
            if form == 1:
                return _Idx(i)
            if form == 2 and _np is not None:
                return _np.int64(i)
            return i
        try:
            if name == "append":
                c[a[0]].append(self.new(a[1]))
            elif name == "add_state":
                r = self.new(a[1])
                c[a[0]].add_state(r.state, r.value, r.spin)
            elif name == "insert":
                c[a[0]].insert(ix(a[1]), self.new(a[2]))
            elif name == "pop":
                c[a[0]].pop(ix(a[1]))
            elif name == "remove":
                c[a[0]].remove(list.__getitem__(c[a[0]], a[1]))
            elif name == "clear":
                c[a[0]].clear()
            elif name == "sort":
                c[a[0]].sort()
            elif name == "sortkey":
                key = {"id": lambda r: decode_state(r.state)[0], "negv": lambda r: -r.value, "v": lambda r: r.value}[a[1]]
                c[a[0]].sort(key=key, reverse=bool(a[2]))
            elif name in ("extend_iter", "iadd_iter"):
                src = list(c[a[1]])
                other = (r for r in src) if self.next_id % 2 else map(lambda r: r, src)      # one-shot iterators
                if name == "extend_iter":
                    c[a[0]].extend(other)
                else:
                    x = c[a[0]]
                    x += other
                    c[a[0]] = x
                    rtype = type(x).__name__
            elif name == "extend":
                other = list(c[a[1]]) if a[2] else c[a[1]]
                c[a[0]].extend(other)
            elif name == "iadd":
                other = list(c[a[1]]) if a[2] else c[a[1]]
                x = c[a[0]]
                x += other
                c[a[0]] = x
                rtype = type(x).__name__
            elif name == "setitem":
                c[a[0]][ix(a[1])] = self.new(a[2])
            elif name == "delitem":
                del c[a[0]][ix(a[1])]
            elif name == "setslice":
                src = list(c[a[3]])                 # any iterable is a legal right-hand side, one-shot ones included
                rhs = [src, tuple(src), (r for r in src), iter(src)][form]
                c[a[0]][ix(a[1]):ix(a[2])] = rhs
            elif name == "delslice":
                del c[a[0]][ix(a[1]):ix(a[2])]
            else:
                if name == "copy":
                    res, d = c[a[0]].copy(), a[1]
                elif name == "add":
                    other = list(c[a[1]]) if a[2] else c[a[1]]
                    res, d = c[a[0]] + other, a[3]
                elif name == "mul":
                    res, d = c[a[0]] * a[1], a[2]
                elif name == "getslice":
                    res, d = c[a[0]][ix(a[1]):ix(a[2])], a[3]
                elif name == "everyother":
                    res, d = c[a[0]][::2], a[1]
                elif name == "reversed":
                    res, d = c[a[0]][::-1], a[1]
                elif name == "filter":
                    t = a[1] - self.shift
                    res, d = c[a[0]].filter(lambda r: r.value <= t), a[2]
                elif name == "filter_states":
                    par = a[1]
                    res, d = c[a[0]].filter_states(lambda s: decode_state(s)[0] % 2 == par), a[2]
                elif name == "apply_function":
                    R, mx, mn = self.R, self.maxv - self.shift, self.minv - self.shift
                    res, d = c[a[0]].apply_function(lambda r: R(r.state, mx + mn - r.value, r.spin)), a[1]
                elif name == "convert_states":
                    res, d = c[a[0]].convert_states(lambda s: dict(s)), a[1]
                elif name == "to_boolean":
                    res, d = c[a[0]].to_boolean(), a[1]
                elif name == "to_spin":
                    res, d = c[a[0]].to_spin(), a[1]
                elif name == "construct":
                    res, d = self.AR([self.new(a[1]), self.new(a[2])]), a[0]
                else:
                    raise HarnessError("harness: unknown op %r" % (op,))
                rtype = type(res).__name__
                if isinstance(res, list):
                    c[d] = res if isinstance(res, self.AR) else _Plain(res)
        except HarnessError:
            raise
        except Exception as e:                      # noqa - the exception IS the observation
            raised = type(e).__name__
        items, best = self.snapshot()
        return {"op": list(op), "raised": raised, "rtype": rtype, "items": items, "best": best}


class _Idx:
    """an integer-like index (anything with __index__ is accepted by list)"""
    def __init__(self, i):
        self.i = i

    def __index__(self):
        return self.i


try:
    import numpy as _np
except Exception:                                   # noqa
    _np = None


class _Plain(list):
    """holder for a derived result that is not an AnnealResults (so the trace can still be recorded)"""
    best = "missing"


ACTION_TO_OP = {
    "DoAppend": "append", "DoAddState": "add_state", "DoInsert": "insert", "DoPop": "pop", "DoRemove": "remove",
    "DoClear": "clear", "DoSort": "sort", "DoSortKey": "sortkey", "DoSetItem": "setitem", "DoDelItem": "delitem", "DoSetSlice": "setslice",
    "DoDelSlice": "delslice", "DoCopy": "copy", "DoAdd": "add", "DoMul": "mul", "DoGetSlice": "getslice",
    "DoEveryOther": "everyother", "DoReversed": "reversed", "DoFilter": "filter", "DoFilterStates": "filter_states",
    "DoApply": "apply_function", "DoConvertStates": "convert_states", "DoToBoolean": "to_boolean",
    "DoToSpin": "to_spin", "DoConstruct": "construct",
}


def op_of_label(label):
    name, args = graph.parse_action(label)
    if name == "DoExtend":
        return [args[0]] + args[1:]
    return [ACTION_TO_OP[name]] + args


def directed_histories(rng, n, vals, length=10, maxlen=7):
    """op sequences chosen with one weight per OPERATION (TLC's simulation picks uniformly among successor states, where the
    parameter-rich operations crowd out the others); lengths are tracked so that the operations are ones a plain list accepts.
    Half of the histories contain a sandwich  sort ; <one in-place mutator> ; sort  (anything remembered by the first sort
    must be forgotten by every mutator)."""
    fams = ["append", "add_state", "insert", "pop", "remove", "clear", "sort", "sort", "sortkey", "extend", "iadd", "extend_iter",
            "iadd_iter", "setitem", "delitem", "setslice", "delslice", "copy", "add", "mul", "getslice", "everyother", "reversed",
            "filter", "filter_states", "apply_function", "convert_states", "to_boolean", "to_spin", "construct"]
    mutators = ["append", "add_state", "insert", "pop", "remove", "extend", "iadd", "extend_iter", "iadd_iter", "setitem", "delitem",
                "setslice", "delslice"]
    out = []
    for _ in range(n):
        ln = {1: 0, 2: 0}
        ops = []

        def make(f, k):
            """one operation of family f on collection k, or None if a plain list would refuse it now"""
            o = rng.choice([1, 2])
            d = 3 - k
            v = rng.choice(vals)
            if f in ("append", "add_state") and ln[k] < maxlen:
                ln[k] += 1
                return [f, k, v]
            if f == "insert" and ln[k] < maxlen:
                ln[k] += 1
                return [f, k, rng.randint(-1, ln[k] - 1), v]
            if f in ("pop", "delitem") and ln[k] > 0:
                ln[k] -= 1
                return [f, k, rng.randint(-1, ln[k])]
            if f == "remove" and ln[k] > 0:
                ln[k] -= 1
                return [f, k, rng.randint(0, ln[k])]
            if f == "clear":
                ln[k] = 0
                return [f, k]
            if f == "sort":
                return [f, k]
            if f == "sortkey":
                return [f, k, rng.choice(["id", "negv", "v"]), rng.random() < 0.5]
            if f in ("extend", "iadd") and ln[k] + ln[o] <= maxlen:
                r = [f, k, o, rng.random() < 0.4]
                ln[k] += ln[o]
                return r
            if f in ("extend_iter", "iadd_iter") and ln[k] + ln[o] <= maxlen:
                ln[k] += ln[o]
                return [f, k, o, True]
            if f == "setitem" and ln[k] > 0:
                return [f, k, rng.randint(-1, ln[k] - 1), v]
            if f == "setslice":
                lo, hi = rng.randint(0, maxlen), rng.randint(0, maxlen)
                l_ = min(lo, ln[k])
                h_ = max(l_, min(hi, ln[k]))
                new = l_ + ln[o] + (ln[k] - h_)
                if new <= maxlen:
                    ln[k] = new
                    return [f, k, lo, hi, o]
                return None
            if f == "delslice" and ln[k] > 0:
                lo = rng.randint(0, ln[k] - 1)
                hi = rng.randint(lo + 1, maxlen)
                ln[k] -= (min(hi, ln[k]) - lo)
                return [f, k, lo, hi]
            if f in ("copy", "everyother", "reversed", "apply_function", "convert_states", "to_boolean", "to_spin"):
                ln[d] = (ln[k] + 1) // 2 if f == "everyother" else ln[k]
                return [f, k, d]
            if f == "add" and ln[k] + ln[o] <= maxlen:
                ln[d] = ln[k] + ln[o]
                return [f, k, o, rng.random() < 0.4, d]
            if f == "mul":
                m = rng.randint(0, 2)
                if ln[k] * m <= maxlen:
                    ln[d] = ln[k] * m
                    return [f, k, m, d]
                return None
            if f == "getslice":
                lo, hi = rng.randint(0, maxlen), rng.randint(0, maxlen)
                ln[d] = max(0, min(hi, ln[k]) - min(lo, ln[k]))
                return [f, k, lo, hi, d]
            if f == "construct":
                ln[k] = 2
                return [f, k, v, rng.choice(vals)]
            return None
        sandwich_at = rng.randint(2, 5) if rng.random() < 0.5 else -1
        for step in range(length):
            if step == sandwich_at:
                k = rng.choice([1, 2])
                ops.append(["sort", k])
                m = make(rng.choice(mutators), k)
                if m:
                    ops.append(m)
                ops.append(["sort", k])
                continue
            f = rng.choice(fams)
            k = rng.choice([1, 2])
            if f in ("filter", "filter_states"):
                # the result's length depends on the contents: the history ends here
                ops.append([f, k, rng.choice(vals) if f == "filter" else rng.choice([0, 1]), 3 - k])
                break
            m = make(f, k)
            if m:
                ops.append(m)
        out.append(ops)
    return out


def replay_ops(ops_list, vals, shift=0):
    """ops_list: list of op sequences -> trace records"""
    traces = []
    for tid, ops in enumerate(ops_list, 1):
        rp = Replayer(vals, shift)
        steps = [rp.apply(op) for op in ops]
        traces.append({"tid": tid, "steps": steps, "shift": shift})
    return traces


def write_cfg(path, spec, consts, invs, props=(), view=None):
    with open(path, "w") as f:
        f.write("SPECIFICATION %s\nCONSTANTS\n" % spec)
        for k, v in consts.items():
            f.write("  %s = %s\n" % (k, v))
        for i in invs:
            f.write("INVARIANT %s\n" % i)
        for p in props:
            f.write("PROPERTY %s\n" % p)
        if view:
            f.write("VIEW %s\n" % view)
        f.write("CHECK_DEADLOCK FALSE\n")


TRACE_INVS = ["ItemsMatch", "ImplBestIsMin", "ImplNoRaise", "ImplType", "SortedOK", "NotStuck", "Drift"]
MC_INVS = ["BestIsMin", "NoRaise", "TypeOK"]
MC_PROPS = ["SortSorts", "ToBoolSpinInverse"]


def validate(out, wd, traces, vals_set, label, chunk_steps=60000):
    """TLC validates recorded traces; violations -> out.  Large trace sets are validated in chunks (one TLC run each):
    TLC holds the whole deserialised file in memory and slows down badly beyond ~10^5 steps."""
    chunk, n, r = [], 0, None
    for t in traces:
        chunk.append(t)
        n += len(t["steps"])
        if n >= chunk_steps:
            r = _validate(out, wd, chunk, vals_set, label)
            chunk, n = [], 0
    if chunk or r is None:
        r = _validate(out, wd, chunk, vals_set, label)
    return r


def _validate(out, wd, traces, vals_set, label):
    traces = [dict(t, tid=i + 1) for i, t in enumerate(traces)]
    tf = os.path.join(wd, "traces_%s.ndjson" % label)
    common.write_ndjson(tf, traces)
    cfg = os.path.join(wd, "ARTrace_%s.cfg" % label)
    write_cfg(cfg, "TraceSpec", {"Vals": vals_set, "MaxLen": 8, "MaxId": 120, "Fixed": "TRUE"}, TRACE_INVS)
    r = run_tlc("AnnealResultsTrace", cfg, env={"QV_TRACES": tf}, cont=True, timeout=1500, name="artrace_" + label)
    out.add("traces_validated_against_impl", len(traces))
    out.add("trace_steps_validated", sum(len(t["steps"]) for t in traces))
    out.add("states", r.distinct)
    out.add("transitions", r.generated)
    out.drift += len(r.prints)
    seen = set()
    for v in r.viol_lines:
        clause, tid, pos = v[1].strip('"'), int(v[2]), int(v[3])
        if (tid, clause) in seen:
            continue
        seen.add((tid, clause))
        tr = traces[tid - 1]
        ops = [s["op"] for s in tr["steps"][:pos]]
        step = tr["steps"][pos - 1] if 0 < pos <= len(tr["steps"]) else None
        opname = step["op"][0] if step else "?"
        out.violation(clause, "%s after %s" % (clause, opname),
                      {"failing_step": step, "position": pos, "history": ops[-8:]}, {"ops": ops, "vals": sorted(vals_list(vals_set)), "shift": tr.get("shift", 0)})
    if r.violated and not r.viol_lines:
        out.violation(r.violated[0], r.violated[0], r.stdout[-1500:], None)
    return r


def vals_list(vals_set):
    return [int(x) for x in vals_set.strip("{}").split(",")]


def run(tier, out, replay=None):
    wd = common.workdir("c13")
    rng = common.rng_for(out.seed, "c13")
    try:
        if replay:
            rec = json.load(open(replay))["record"]
            vals = "{%s}" % ", ".join(str(v) for v in rec["vals"])
            traces = replay_ops([rec["ops"]], rec["vals"], rec.get("shift", 0))
            validate(out, wd, traces, vals, "replay")
            out.sample({"replayed_ops": rec["ops"]})
            return
        # 1. exhaustive model checking of the specification
        thorough = tier == "thorough"
        mcs = [{"Vals": "{1, 2}", "MaxLen": 2, "MaxId": 3, "Fixed": "TRUE"}]
        if thorough:
            # measured: 38 172 states / 9 s, 59 885 / 11 s, 1 245 846 / 3 min 45 s  ({1,2,3} with MaxLen 3 and 4 results exceeds 10^7 states)
            mcs = [{"Vals": "{1, 2, 3}", "MaxLen": 2, "MaxId": 3, "Fixed": "TRUE"}, {"Vals": "{1, 2}", "MaxLen": 2, "MaxId": 4, "Fixed": "TRUE"},
                   {"Vals": "{1, 2}", "MaxLen": 3, "MaxId": 3, "Fixed": "TRUE"}]
        cfg = os.path.join(wd, "mc.cfg")
        mc = mcs[0]
        out.set("spec_constants", mcs)
        for qi, mcq in enumerate(mcs):
            write_cfg(cfg, "Spec", mcq, MC_INVS, MC_PROPS, view="View")
            r = run_tlc("AnnealResults", cfg, timeout=3000, coverage=(thorough and qi == 0), name="ar_mc")
            out.add("spec_states", r.distinct)
            out.add("spec_transitions", r.generated)
            out.add("states", r.distinct)
            out.add("transitions", r.generated)
            if not r.ok:
                out.violation("spec:" + ",".join(r.violated), "spec-level " + ",".join(r.violated), r.stdout[-3000:])
            if thorough and r.coverage:
                zero = [a for a, (d, g) in r.coverage.items() if g == 0 and a.startswith("Do")]
                out.set("actions_never_taken", zero)
        # 1b. negative configuration: the pinned (unrepaired) behaviour must be rejected by the same invariants
        neg = dict(mc, Fixed="FALSE", MaxId=3, MaxLen=2, Vals="{1, 2}")
        write_cfg(cfg, "Spec", neg, MC_INVS, (), view="View")
        rejected = []
        for inv in ("BestIsMin", "NoRaise"):
            write_cfg(cfg, "Spec", neg, [inv], (), view="View")
            rn = run_tlc("AnnealResults", cfg, timeout=600, name="ar_neg")
            rejected += rn.violated
        out.set("negative_config_rejected", sorted(set(rejected)))
        if not {"BestIsMin", "NoRaise"} <= set(rejected):
            out.notes.append("VACUITY WARNING: negative configuration not rejected: %s" % rejected)
        # 2. every transition of a small instance, replayed on the real class
        tiny = {"Vals": "{0, 1}", "MaxLen": 2, "MaxId": 2, "Fixed": "TRUE"}
        write_cfg(cfg, "Spec", tiny, ["BestIsMin"], (), view="View")
        dump = os.path.join(wd, "g")
        rd = run_tlc("AnnealResults", cfg, timeout=900, workers=8, extra=["-dump", "dot,actionlabels", dump], name="ar_dump")
        adj, init, _ = graph.parse_dot(dump + ".dot")
        os.remove(dump + ".dot")
        budget = 400000 if thorough else 45000
        walks, covered, total = graph.cover_walks(adj, init, rng, budget)
        out.set("graph_edges_total", total)
        out.set("graph_edges_replayed", covered)
        out.set("exhaustive", covered == total)
        ops_list = [[op_of_label(l) for l in w] for w in walks]
        traces = replay_ops(ops_list, [0, 1])
        out.sample({"ops": ops_list[0][:12], "last_step": traces[0]["steps"][min(11, len(traces[0]["steps"]) - 1)]})
        validate(out, wd, traces, "{0, 1}", "walk")
        # 3. long random behaviours from a larger instance (simulation mode)
        big = {"Vals": "{0, 1, 3}", "MaxLen": 4, "MaxId": 12, "Fixed": "TRUE"}
        write_cfg(cfg, "Spec", big, ["BestIsMin", "NoRaise"], ())
        simdir = os.path.join(wd, "sim")
        os.makedirs(simdir)
        nsim = 4000 if thorough else 500
        rs = run_tlc("AnnealResults", cfg, timeout=1500, workers=1, simulate="file=%s/tr,num=%d" % (simdir, nsim),
                     extra=["-depth", "40", "-seed", str(out.seed + 17)], name="ar_sim")
        behs = graph.parse_sim_files(os.path.join(simdir, "tr"))
        ops_list = []
        for b in behs:
            ops = [st["op"] for st in b[1:] if "op" in st]
            if ops:
                ops_list.append(ops)
        out.set("simulated_behaviours", len(ops_list))
        traces = replay_ops(ops_list, [0, 1, 3], shift=1)       # the real values are the specification's minus 1: -1, 0, 2
        if traces:
            out.sample({"simulated_ops": ops_list[0][:10]})
            validate(out, wd, traces, "{0, 1, 3}", "sim")
        # 4. directed histories: one weight per operation (sort after += after sort, ...), validated like the generated ones
        ops_list = directed_histories(rng, 12000 if thorough else 1500, [0, 1, 3])
        out.set("directed_histories", len(ops_list))
        traces = replay_ops(ops_list, [0, 1, 3], shift=1)
        validate(out, wd, traces, "{0, 1, 3}", "directed")
        out.assumptions += [
            "every AnnealResult created by the harness carries a distinct state, so `best is an element` means the same under == and identity",
            "k * res (reflected multiplication, returns a plain list) and reverse() are not judged: not in the property's list",
            "bounds: spec explored exhaustively for the constants in spec_constants; longer lists only via simulated behaviours"]
    finally:
        common.cleanup(wd)
