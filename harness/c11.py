"""C11 - annealers return well-formed results whose values match their states.

Calls of the four functions (every accepted model type, schedules, initial states, orders, seeds, num_anneals) run
against the extension rebuilt from /repo; spec/CheckAnneal.tla (TLC) evaluates the result-shape contract on every record."""
import json
import os

from . import anneal_common as ac, cbuild, common
from .tlc import run_tlc

NATIVE = {"anneal_quso": {"QUSOMatrix"}, "anneal_puso": {"PUSOMatrix", "QUSOMatrix"},
          "anneal_qubo": {"QUBOMatrix"}, "anneal_pubo": {"PUBOMatrix"}}
KINDS = {"anneal_quso": ["dict", "QUSO", "QUSOMatrix", "PUSOMatrix"],
         "anneal_puso": ["dict", "PUSO", "PCSO", "QUSO", "PUSOMatrix", "QUSOMatrix"],
         "anneal_qubo": ["dict", "QUBO", "QUBOMatrix", "PUBOMatrix"],
         "anneal_pubo": ["dict", "PUBO", "PCBO", "QUBO", "PUBOMatrix", "QUBOMatrix"]}
QUAD = {"QUSO", "QUBO", "QUSOMatrix", "QUBOMatrix"}


def gen_calls(rng, n):
    calls = []
    for cid in range(n):
        fn = rng.choice(sorted(KINDS))
        kind = rng.choice(KINDS[fn])
        quadfn = fn in ("anneal_quso", "anneal_qubo")
        maxdeg = 2 if (quadfn or kind in QUAD) else rng.choice([1, 2, 3, 4])
        matrix = kind.endswith("Matrix")
        shape = rng.random()
        if shape < 0.08:
            terms, den, labs = ([[[], rng.choice([-2, 3])]] if rng.random() < 0.6 else []), 1, []       # constant / empty
        else:
            terms, den, labs = ac.gen_model(rng, True, nmax=rng.choice([1, 2, 3, 4, 5]), maxdeg=maxdeg, matrix=matrix)
        labels = {}
        if not matrix:
            ls = rng.choice(ac.LABEL_SETS)
            labels = {"L%d" % i: ls[i] for i in range(len(labs))}
        kw = {"in_order": rng.random() < 0.5, "num_anneals": rng.choice([-1, 0, 1, 1, 2, 3])}
        if rng.random() < 0.8:
            kw["seed"] = rng.randint(0, 10 ** 6)
        sch = rng.random()
        if sch < 0.45:
            kw["schedule"] = ac.schedule_explicit(rng)
        else:
            kw["schedule"] = rng.choice(["linear", "geometric"])
            kw["anneal_duration"] = rng.choice([1, 2, 7, 30])
            if rng.random() < 0.4:
                kw["temperature_range"] = rng.choice([[3.0, 0.5], [1.0, 1.0], [2.0, 0.01]])
        if kind == "dict" and labs and (isinstance(kw["schedule"], list) or "temperature_range" in kw) and rng.random() < 0.3:
            # a raw dict may mention a label only with a zero coefficient: it is no variable of the model
            zl = "L%d" % len(labels)
            labels[zl] = repr("zero-only")
            terms.append([[zl], 0])
        if rng.random() < 0.4:
            used = sorted({x for k, c_ in terms for x in k if c_}, key=str)
            if matrix and used:
                used = list(range(max(used) + 1))
            spinfn = fn in ("anneal_quso", "anneal_puso")
            kw["initial_state"] = [[x, rng.choice([1, -1] if spinfn else [0, 1])] for x in used]
        call = {"id": cid, "fn": fn, "kind": kind, "terms": terms, "den": den, "labels": labels, "kwargs": kw,
                "trace": False, "twice": False}
        # stale models: a reported variable that occurs in no term (variables are upper bounds before refresh, C14).  Not with a
        # named schedule on a model without any term: anneal_temperature_range is not defined there (DESIGN 5).
        has_term = any(k for k, _ in terms)
        if kind != "dict" and rng.random() < 0.15 and (has_term or not isinstance(kw["schedule"], str)):
            if matrix:
                used = [x for k, _ in terms for x in k]
                lab = (max(used) + 1 + rng.randint(0, 1)) if used else rng.randint(0, 2)
            else:
                lab = "L%d" % len(labels)
                labels[lab] = repr("stale")
            call["post"] = [[[lab], 1], [[lab], 0]]
            kw.pop("initial_state", None)
        if rng.random() < 0.3:
            call["init_list"] = True             # an initial state over the labels 0..n-1 handed over as a list
        if rng.random() < 0.2:
            call["positional"] = True
        if rng.random() < 0.2:
            call["sched_tuple"] = True
        elif rng.random() < 0.15:
            call["sched_iter"] = True
        if rng.random() < 0.2:
            call["in_order_form"] = rng.choice(["int", "np"])
        if kind in ("QUBO", "QUSO", "PUBO", "PUSO", "PCBO", "PCSO") and rng.random() < 0.25:
            call["remap"] = True          # the user renumbered the labels (set_mapping) before annealing
        if kind != "dict" and terms and "post" not in call and rng.random() < 0.2:
            call["warm"] = True           # the same object was annealed before with other coefficients, then edited in place
        calls.append(call)
    return calls


def exhaustive_calls(polys, start_id):
    """every polynomial of the TLC-emitted universe through each of the four functions, as a dict and as the native Matrix type"""
    calls = []
    native = {"anneal_quso": "QUSOMatrix", "anneal_puso": "PUSOMatrix", "anneal_qubo": "QUBOMatrix", "anneal_pubo": "PUBOMatrix"}
    for p in polys:
        for fn in sorted(KINDS):
            for kind, labs, labels in (("dict", ["L0", "L1"], {"L0": "'a'", "L1": "3"}), (native[fn], [0, 2], {})):
                m = dict(zip(["L0", "L1"], labs))
                terms = [[[m[x] for x in k], c] for k, c in p.items()]
                for sched in ([0.0], [2.0, 0.5, 0.0]):
                    calls.append({"id": start_id + len(calls), "fn": fn, "kind": kind, "terms": terms, "den": 1, "labels": dict(labels),
                                  "kwargs": {"schedule": sched, "in_order": len(calls) % 2 == 0, "seed": 7 + len(calls) % 5, "num_anneals": 2},
                                  "trace": False, "twice": False})
    return calls


def to_record(call, o):
    den = call["den"]
    matrix = call["kind"].endswith("Matrix")
    names = {}
    for nm, lit in call["labels"].items():
        names[repr(eval(lit))] = nm

    def nm(krepr):
        if matrix:
            try:
                return int(krepr)
            except ValueError:
                return -7
        return names.get(krepr, "?" + krepr)
    api = []
    for r in o.get("api", []):
        v = ac.scaled(ac.hexfrac(r["val"]), den * (1 << 4))
        api.append({"st": [[nm(k), val if isinstance(val, int) and not isinstance(val, bool) else -9] for k, val in r["st"]],
                    "val": v if v is not None else -999999, "spin": r["spin"]})
    best = []
    if o.get("best") is not None:
        b = ac.scaled(ac.hexfrac(o["best"]), den * (1 << 4))
        best = [b if b is not None else -999999]
    # user terms over the denominator den * 16 (boolean -> spin conversion inside the library introduces 2^-k)
    user = [[k, c * 16] for k, c in call["terms"]]
    return {"id": call["id"], "fn": call["fn"], "spinfn": call["fn"] in ("anneal_quso", "anneal_puso"), "kind": call["kind"],
            "native": call["kind"] in NATIVE[call["fn"]], "matrix": matrix, "user": user,
            "reported": [nm(x) for x in o.get("reported", [])], "maxindex": o.get("maxindex", -1),
            "num_anneals": call["kwargs"].get("num_anneals", 1), "api": api, "best": best, "rtype": o.get("rtype", ""),
            "raised": o.get("raised", ""), "unchanged": bool(o.get("unchanged", False))}


INVS = ["NoRaise", "Count", "Domain", "Values", "SpinFlag", "ValueIsEnergy", "BestIsMin", "ResultType", "ArgUnchanged"]


def run(tier, out, replay=None):
    wd = common.workdir("c11")
    rng = common.rng_for(out.seed, "c11")
    thorough = tier == "thorough"
    try:
        so = cbuild.build("plain")
        if replay:
            calls = [json.load(open(replay))["record"]["call"]]
        else:
            calls = gen_calls(rng, 12000 if thorough else 1500)
            from . import pure
            polys, udesc = pure.universe("2f" if thorough else "2s", wd)
            ex = exhaustive_calls(polys, len(calls))
            calls += ex
            out.set("exhaustive_universe", udesc)
            out.set("exhaustive_calls", len(ex))
        rc, stdout, outs = ac.run_driver(calls, so, wd, "c11")
        byid = {o["id"]: o for o in outs}
        recs, kept = [], []
        for c in calls:
            o = byid.get(c["id"])
            if o is None:
                out.violation("DriverCrash", "interpreter died in %s(%s)" % (c["fn"], c["kind"]), stdout[-1500:], {"call": c})
                break
            recs.append(to_record(c, o))
            kept.append(c)
        out.add("evaluations", len(recs))
        distinct = {json.dumps([r["fn"], r["kind"], r["user"], r["num_anneals"]], sort_keys=True) for r in recs if r["user"]}
        out.set("distinct_nontrivial", len(distinct))
        out.set("rule", "seeded generator (VERIF_SEED): function x accepted model type x model (<=5 variables, degree <=4, integer/half "
                        "coefficients, offsets, gaps, constant and empty models) x schedule ('linear','geometric', explicit incl. zeros and []) "
                        "x anneal_duration x temperature_range x initial_state x in_order x seed x num_anneals in {-1,0,1,2,3}; a case is "
                        "non-trivial when the model has at least one term; distinct = distinct (function, type, model, num_anneals)")
        if recs:
            out.sample({k: recs[0][k] for k in ("fn", "kind", "user", "num_anneals", "api")})
            rf = os.path.join(wd, "recs.ndjson")
            common.write_ndjson(rf, recs)
            r = run_tlc("CheckAnneal", "CheckAnneal.cfg", env={"QV_RECS": rf}, cont=True, timeout=2400, name="checkanneal")
            out.add("states", r.distinct)
            seen = set()
            for v in r.viol_lines:
                clause, idx = v[1].strip('"'), int(v[2])
                rec, call = recs[idx - 1], kept[idx - 1]
                shape = "constant-or-empty" if not any(k for k, _ in call["terms"]) else "with-variables"
                sig = "%s %s(%s) %s" % (clause, rec["fn"], rec["kind"], shape)
                if (idx, clause) in seen:
                    continue
                seen.add((idx, clause))
                out.violation(clause, sig, {"raised": rec["raised"], "terms": call["terms"], "kwargs": call["kwargs"],
                                            "api": rec["api"][:2]}, {"call": call})
            if r.violated and not r.viol_lines:
                out.violation(r.violated[0], r.violated[0], r.stdout[-1500:], None)
        out.assumptions += ["coefficients are integers or halves so that values are exact doubles",
                            "for a labelled model the state's keys must lie between the true and the reported variables"]
    finally:
        common.cleanup(wd)
