"""Shared plumbing of the checks: work directory, evidence files, known findings, replay files,
exact encoding of coefficients, label naming.  No verdict is computed here."""
import hashlib
import json
import os
import random
import shutil
import sys
import time
from fractions import Fraction

VERIF = os.path.dirname(os.path.dirname(os.path.abspath(__file__)))
SPEC = os.path.join(VERIF, "spec")
WORK = os.path.join(VERIF, ".work")
EVID = os.environ.get("QV_EVID") or os.path.join(VERIF, "evidence")      # (QV_EVID: scratch runs of selftest/try_patch_wt.sh)
REPLAYS = os.path.join(VERIF, "replays")
REPO = os.environ.get("QV_REPO", "/repo")
GUARD = "JTIOSUE_QUBOVERT_VERIF"


def workdir(name):
    d = os.path.join(WORK, name + "_%d" % os.getpid())
    shutil.rmtree(d, ignore_errors=True)
    os.makedirs(d, exist_ok=True)
    return d


def cleanup(d):
    shutil.rmtree(d, ignore_errors=True)


def seed_from_env():
    try:
        return int(os.environ.get("VERIF_SEED", "0"))
    except ValueError:
        return 0


# ---------------------------------------------------------------- exact numbers
class Inexact(Exception):
    pass


def frac(v):
    """exact Fraction of a Python / numpy / sympy number; raises Inexact for anything else"""
    if isinstance(v, bool):
        return Fraction(int(v))
    if isinstance(v, int):
        return Fraction(v)
    if isinstance(v, float):
        if v != v or v in (float("inf"), float("-inf")):
            raise Inexact(repr(v))
        return Fraction(v)
    if isinstance(v, Fraction):
        return v
    try:
        import numpy as np
        if isinstance(v, np.integer):
            return Fraction(int(v))
        if isinstance(v, np.floating):
            return Fraction(float(v))
    except ImportError:
        pass
    try:
        import sympy
        if isinstance(v, sympy.Basic):
            if v.is_Rational:
                return Fraction(int(v.p), int(v.q))
            if v.is_Float:
                return Fraction(float(v))
    except ImportError:
        pass
    raise Inexact(repr(v))


def common_den(fracs, cap=1 << 16):
    """smallest power of two d with every f*d integral; Inexact if none <= cap"""
    d = 1
    for f in fracs:
        q = f.denominator
        if q & (q - 1):
            raise Inexact("non-dyadic %s" % f)
        d = max(d, q)
    if d > cap:
        raise Inexact("denominator %d" % d)
    return d


def to_int(f, den):
    n = f * den
    if n.denominator != 1 or abs(n.numerator) >= (1 << 30):
        raise Inexact(str(f))
    return int(n.numerator)


# ---------------------------------------------------------------- labels
class Labels:
    """bijection between Python labels and the opaque string names used in the records.
    Constraint ancillas ('__a<k>') keep their own name so the specification can see them."""

    def __init__(self):
        self.fwd = {}
        self.names = []

    def name(self, lab):
        key = (type(lab).__name__, lab)
        if key not in self.fwd:
            if isinstance(lab, str) and lab.startswith("__a"):
                n = lab
            else:
                n = "L%d" % len([x for x in self.names if x.startswith("L")])
            self.fwd[key] = n
            self.names.append(n)
        return self.fwd[key]

    def table(self):
        return {n: repr(k[1]) for k, n in self.fwd.items()}


# label pools of mixed hashable types (DESIGN 1.2); ordering_key must cope with all of them
LABEL_POOLS = [
    ["a", "b", "c", "d", "e", "f"],
    [0, 1, 2, 3, 4, 5],
    ["x", 3, (1, 2), "__b", 1.5, frozenset([7])],
    [5, 2, 9, 0, 7, 4],
    [("i", 0), ("i", 1), ("j", 0), "z", 10, "y"],
    ["b", "a", 0, "0", (0,), -1],
    ["", (), 0, "b", -1, (0, 0)],          # falsy labels: the empty string, the empty tuple, zero
]


def label_pool(rng):
    return list(rng.choice(LABEL_POOLS))


def terms_of(model):
    """raw term list [(tuple key, value)] in the implementation's own key order"""
    return [(tuple(k), v) for k, v in model.items()]


def enc_terms(terms, lab, den):
    """terms: iterable of (key tuple, value) -> [[names...], numerator]"""
    out = []
    for k, v in terms:
        out.append([[lab.name(x) for x in k], to_int(frac(v), den)])
    return out


def enc_terms_int(terms, den):
    """terms keyed by non-negative ints (enumerated / Matrix forms)"""
    out = []
    for k, v in terms:
        kk = []
        for x in k:
            if not isinstance(x, int) or isinstance(x, bool):
                try:
                    import numpy as np
                    if isinstance(x, np.integer):
                        x = int(x)
                    else:
                        raise Inexact("non-int label %r" % (x,))
                except ImportError:
                    raise Inexact("non-int label %r" % (x,))
            kk.append(int(x))
        out.append([kk, to_int(frac(v), den)])
    return out


def den_of(*term_lists):
    fr = []
    for t in term_lists:
        for _, v in t:
            fr.append(frac(v))
    return common_den(fr)


# ---------------------------------------------------------------- known findings
def load_known(pid):
    p = os.path.join(VERIF, "known_findings.json")
    if not os.path.exists(p):
        return []
    with open(p) as f:
        data = json.load(f)
    return [e for e in data.get("findings", []) if e.get("property") == pid and e.get("status") == "finding"]


# ---------------------------------------------------------------- result object
class Outcome:
    """collects what one check run covered and found; writes evidence and prints verdict lines"""

    def __init__(self, pid, tier, level):
        self.pid, self.tier, self.level = pid, tier, level
        self.seed = seed_from_env()
        self.t0 = time.time()
        self.cov = {"samples": []}
        self.violations = []     # dicts: {clause, signature, detail, record}
        self.known_hits = []
        self.assumptions = []
        self.notes = []
        self.drift = 0

    def add(self, key, n):
        self.cov[key] = self.cov.get(key, 0) + int(n)

    def set(self, key, v):
        self.cov[key] = v

    def sample(self, s, cap=4):
        if len(self.cov["samples"]) < cap:
            self.cov["samples"].append(s)

    def violation(self, clause, signature, detail, record=None):
        """signature: short stable string identifying WHAT fails (used against known findings)"""
        for kf in load_known(self.pid):
            if kf.get("signature") == signature:
                if signature not in [k["signature"] for k in self.known_hits]:
                    self.known_hits.append(kf)
                return
        self.violations.append({"clause": clause, "signature": signature, "detail": detail, "record": record})

    def finish(self):
        os.makedirs(EVID, exist_ok=True)
        os.makedirs(REPLAYS, exist_ok=True)
        wall = time.time() - self.t0
        cov = dict(self.cov)
        if not cov.get("samples"):
            cov["samples"] = ["(no case recorded)"]
        cov["drift_reports"] = self.drift
        ev = {"property_id": self.pid, "tier": self.tier, "seed": self.seed, "level": self.level,
              "coverage": cov, "assumptions": self.assumptions, "wall_s": round(wall, 2),
              "violations": len(self.violations), "known_findings_hit": [k["signature"] for k in self.known_hits],
              "notes": self.notes}
        if not getattr(self, "is_replay", False):       # a replay re-judges one case; it is not evidence of coverage
            with open(os.path.join(EVID, self.pid + ".json"), "w") as f:
                json.dump(ev, f, indent=1, default=str)
        for k in self.known_hits:
            print("KNOWN-FINDING: property=%s %s" % (self.pid, k.get("what", k.get("signature"))))
        seen = set()
        for v in self.violations:
            h = hashlib.sha1((v["clause"] + "|" + v["signature"]).encode()).hexdigest()[:10]
            if h in seen:
                continue
            seen.add(h)
            path = os.path.join(REPLAYS, "%s-%s.json" % (self.pid, h))
            with open(path, "w") as f:
                json.dump({"property": self.pid, "clause": v["clause"], "signature": v["signature"],
                           "detail": v["detail"], "record": v["record"], "tier": self.tier, "seed": self.seed,
                           "replay_cmd": "./check %s --replay %s" % (self.pid, path)}, f, indent=1, default=str)
            print("VIOLATION property=%s replay=%s" % (self.pid, path))
            print("  clause=%s  %s" % (v["clause"], str(v["detail"])[:300]))
            if len(seen) >= 25:
                print("  ... (%d violations in total; first 25 distinct written)" % len(self.violations))
                break
        status = "HELD" if not self.violations else "VIOLATED"
        print("%s %s tier=%s seed=%d wall=%.1fs %s" % (self.pid, status, self.tier, self.seed, wall,
              " ".join("%s=%s" % (k, v) for k, v in cov.items() if isinstance(v, (int, bool)))))
        return 1 if self.violations else 0


def write_ndjson(path, records):
    with open(path, "w") as f:
        for r in records:
            f.write(json.dumps(r, separators=(",", ":")) + "\n")


def rng_for(seed, salt):
    return random.Random("%s/%s" % (seed, salt))
