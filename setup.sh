#!/bin/sh
# Build step after a fresh restore: nothing is compiled ahead of time (every check rebuilds what it needs from
# /repo's working tree into /verif/.work); this only verifies the tools are present.
set -e
cd "$(dirname "$0")"
mkdir -p .work evidence replays
command -v java >/dev/null
test -f /opt/veriftools/tla/tla2tools.jar
/venv/bin/python -c "import qubovert, sympy, numpy"
echo setup ok
