#!/bin/sh
# usage: try_patch_wt.sh <worktree> <patch.diff> <ID> [tier]  - like try_patch.sh, but the change is applied in a private worktree of
# /repo (built with mkwt.sh) and the check reads the library from there (QV_REPO / PYTHONPATH), so several can run side by side.
# The evidence file is written to a scratch directory (QV_EVID), never over the committed one.
wt="$1"; p="$2"; id="$3"; tier="${4:-quick}"
cd "$wt" || exit 2
git checkout -q -- . || exit 2
git apply "$p" || { echo "patch does not apply"; exit 2; }
case "$p" in *) if git diff --name-only | grep -q '\.c$\|\.h$'; then /venv/bin/python setup.py -q build_ext --inplace >/dev/null 2>&1; rm -rf build; fi;; esac
cd /verif && QV_EVID=/tmp/evid_$$ QV_REPO="$wt" PYTHONPATH="$wt" ./check "$id" --tier "$tier" > /verif/.work/trywt_${id}_$$.log 2>&1
rc=$?
rm -rf /tmp/evid_$$
git -C "$wt" checkout -q -- .
grep -E "^VIOLATION|clause=|HELD|VIOLATED|MACHINERY" /verif/.work/trywt_${id}_$$.log | head -3 | cut -c1-200
rm -f /verif/.work/trywt_${id}_$$.log
echo "RESULT $id $rc"
