#!/bin/sh
# usage: try_patch.sh <patch.diff> <ID> [tier]   - apply a seeded change to /repo, run the check, undo the change
# prints RESULT <ID> <exit code>; exit code 1 = the check caught the change.  The evidence file written by the run on the CHANGED
# tree is discarded (the committed one is restored).
p="$1"; id="$2"; tier="${3:-quick}"
cd /repo || exit 2
if ! git diff --quiet; then echo "repo dirty, refusing"; exit 2; fi
git apply "$p" || { echo "patch does not apply"; exit 2; }
cd /verif && ./check "$id" --tier "$tier" > /verif/.work/try_$id.log 2>&1
rc=$?
git -C /repo checkout -- .
git -C /verif checkout -- evidence/$id.json 2>/dev/null
grep -E "^VIOLATION|clause=|HELD|VIOLATED|MACHINERY" /verif/.work/try_$id.log | head -8 | cut -c1-300
echo "RESULT $id $rc"
