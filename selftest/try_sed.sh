#!/bin/sh
# usage: try_sed.sh <file relative to /repo> <sed expression> <ID> [tier] - apply a one-line source mutation, run the check, undo
f="$1"; e="$2"; id="$3"; tier="${4:-quick}"
cd /repo || exit 2
if ! git diff --quiet; then echo "repo dirty, refusing"; exit 2; fi
sed -i "$e" "$f"
if git diff --quiet; then echo "mutation did not change anything"; exit 2; fi
git diff | grep '^[-+]' | grep -v '^+++\|^---' | head -4
cd /verif && ./check "$id" --tier "$tier" > /verif/.work/try_$id.log 2>&1
rc=$?
git -C /repo checkout -- .
git -C /verif checkout -- evidence/$id.json 2>/dev/null
grep -E "^VIOLATION|clause=|HELD|VIOLATED|MACHINERY" /verif/.work/try_$id.log | head -4 | cut -c1-260
echo "RESULT $id $rc"
