#!/bin/sh
# usage: confirm_seed.sh <worktree> <agent_out_dir/i> <seed_id> <check_rc>
# confirms: demo passes on the clean worktree, fails with the patch; pytest baseline (398 passed / 2 failed) with the patch.
# on success copies patch.diff, demo.py, meta.json (+ confirmation) to /verif/seeded/<seed_id>/
wt="$1"; src="$2"; sid="$3"; crc="$4"
cd "$wt" || exit 2
git checkout -q -- . 
rundemo() { if [ -f "$src/demo.sh" ]; then sh "$src/demo.sh" >/dev/null 2>&1; else /venv/bin/python "$src/demo.py" >/dev/null 2>&1; fi; }
rundemo; clean=$?
git apply "$src/patch.diff" || exit 2
/venv/bin/python setup.py -q build_ext --inplace >/dev/null 2>&1; rm -rf build
rundemo; patched=$?
res=$(/venv/bin/python -m pytest -q -p no:cacheprovider -n 8 --timeout=900 2>&1 | tail -1)
git checkout -q -- .
/venv/bin/python setup.py -q build_ext --inplace >/dev/null 2>&1; rm -rf build
echo "$sid: demo clean=$clean patched=$patched pytest: $res"
case "$res" in *"2 failed, 398 passed"*) ok=1;; *) ok=0;; esac
if [ "$clean" = 0 ] && [ "$patched" != 0 ] && [ "$ok" = 1 ]; then
  mkdir -p /verif/seeded/$sid
  cp "$src/patch.diff" /verif/seeded/$sid/; cp "$src"/demo.* /verif/seeded/$sid/
  /venv/bin/python - "$src/meta.json" "/verif/seeded/$sid/meta.json" "$res" "$crc" <<'PY'
import json, sys
m = json.load(open(sys.argv[1]))
m["confirmed"] = {"demo_clean_exit": 0, "demo_patched_exit": "non-zero", "pytest_with_patch": sys.argv[3],
                  "check_exit_with_patch": int(sys.argv[4])}
json.dump(m, open(sys.argv[2], "w"), indent=1)
PY
  echo "kept $sid"
else
  echo "NOT kept $sid"
fi
