#!/bin/sh
# usage: mkwt.sh <dir>   - scratch git worktree of /repo HEAD with the C extension built in place
set -e
d="$1"
git -C /repo worktree add --detach "$d" HEAD >/dev/null 2>&1
cd "$d"
/venv/bin/python setup.py -q build_ext --inplace >/dev/null 2>&1
rm -rf build
echo "$d ready"
