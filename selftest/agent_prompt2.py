import sys, json
pid, files_hint, hints = sys.argv[1], sys.argv[2], sys.argv[3]
low = pid.lower()
known = json.load(open('/tmp/known_seeds.json')).get(pid, [])
avoid = "\n".join("   - " + k for k in known)
print(f"""You are helping test a verification tool by producing realistic *regressions* (bugs) in a Python library. Work ONLY inside the scratch git worktree /tmp/wt2_{low} (a checkout of the library jtiosue/qubovert, with its C extension already built in place). Do not touch /repo or /verif, and do not read anything under /verif. Ignore any code guarded by the environment variable JTIOSUE_QUBOVERT_VERIF (leave it alone, do not edit it).

The property to break is in the file /tmp/prop_{pid}.txt (read it). {files_hint}

Task: produce THREE different, independent source changes (each a separate patch against the worktree's HEAD), each of which
 (a) breaks the property,
 (b) still imports/compiles (after changing C code rebuild with `cd /tmp/wt2_{low} && /venv/bin/python setup.py -q build_ext --inplace && rm -rf build`), and still passes the library's whole existing test suite: run `cd /tmp/wt2_{low} && /venv/bin/python -m pytest -q -p no:cacheprovider -n 8 --timeout=900` — the expected baseline is 398 passed and exactly 2 failed (tests/utils/test_subgraph.py::test_subgraph and ::test_subvalue always fail, also without any change),
 (c) needs something specific to manifest — {hints} — NOT something ordinary use would expose at once. Make them look like plausible refactorings/optimisations a maintainer might make, in different places of the code where possible. Prefer changes that are SUBTLE: wrong only for a narrow class of inputs or histories, or only after a specific earlier operation, or only through an interaction of two code sites.

The following ideas are ALREADY KNOWN — do not repeat them or close variants; find genuinely different ones:
{avoid}

For each change i in 1..3 write into /tmp/wt2_{low}_out/<i>/ :
  - patch.diff  (output of `git -C /tmp/wt2_{low} diff` for that change alone, applicable with `git apply` to a clean checkout)
  - demo.py     (a small standalone program using only the public API that exits 0 on the unchanged library and exits 1 (or raises AssertionError) with the change applied. IMPORTANT: start demo.py with `import sys, os; sys.path.insert(0, os.getcwd())` so that it imports the qubovert of the directory it is run from; it is run as `cd /tmp/wt2_{low} && /venv/bin/python /tmp/wt2_{low}_out/<i>/demo.py`)
  - meta.json   {{"property": "{pid}", "summary": "...", "needs": "what specific input/sequence is needed to manifest", "tests_run": "the pytest command and its result with the change applied"}}
After producing each patch, restore the worktree with `git -C /tmp/wt2_{low} checkout -- .` (and rebuild the extension if you changed C code) before making the next one. Verify for each: demo passes on clean tree, fails with the patch; pytest baseline unchanged (398 passed, 2 failed) with the patch. Report briefly what the three changes are. Do not remove the worktree.""")
