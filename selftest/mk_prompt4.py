import sys, json, re, glob, os
pid = sys.argv[1]
known = {}
for d in sorted(glob.glob('/verif/seeded/*/meta.json')):
    m = json.load(open(d)); p = os.path.basename(os.path.dirname(d)).split('-')[0]
    known.setdefault(p, []).append(m.get('summary', '')[:260])
t = open('/tmp/prompt2_%s.txt' % pid).read()
t = t.replace('wt2_', 'wt4_')
extra = (" Earlier rounds concentrated on the obvious core logic; this time prefer (i) interactions with object state or history "
         "(copies, caches or memoisation added as an optimisation, set_mapping, refresh, stale variables, reuse or sharing of returned "
         "objects between calls), (ii) rarely used public entry points and parameter combinations, (iii) the boundary between the public "
         "front end and helper code (type dispatch with isinstance vs exact type, argument normalisation, default values, keyword vs "
         "positional arguments), (iv) degenerate inputs (empty, constant, a single variable, falsy labels such as 0, the empty string and "
         "the empty tuple, labels of mixed types, very large or very small coefficients).")
t = t.replace("or only through an interaction of two code sites.", "or only through an interaction of two code sites." + extra)
head, rest = t.split("The following ideas are ALREADY KNOWN", 1)
tail = rest.split("For each change i in 1..3", 1)[1]
avoid = "\n".join("   - " + k for k in known.get(pid, []))
t = head + "The following ideas are ALREADY KNOWN — do not repeat them or close variants; find genuinely different ones:\n" + avoid + "\n\nFor each change i in 1..3" + tail
open('/tmp/prompt4_%s.txt' % pid, 'w').write(t)
print(pid, len(t))
