#!/bin/sh
# Re-run every seeded change in /verif/seeded against its check (apply to /repo, run quick check, undo).
# Prints one line per seed: <seed> caught|MISSED.  Not a MANIFEST check; used to demonstrate the binding.
cd /verif || exit 2
for d in seeded/C*/; do
  sid=$(basename "$d")
  id=${sid%-*}
  out=$(selftest/try_patch.sh "/verif/$d/patch.diff" "$id" 2>&1 | tail -1)
  case "$out" in
    "RESULT $id 1") echo "$sid caught";;
    *) echo "$sid MISSED ($out)";;
  esac
done
